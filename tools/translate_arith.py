"""Fail-closed translator: pba/intervals/arithmetic.py -> Gallina (per-element semantics).

Accepted shapes (anything else raises Unsupported, which the check treats as a
broken proof obligation):

    def multiply(s, o) / divide(s, o):
        s_lo, s_hi, o_lo, o_hi = s.lo, s.hi, o.lo, o.hi
        [other_straddle_zero = numpy.any((o_lo.flatten() <= 0) & (o_hi.flatten() >= 0))
         if other_straddle_zero: raise ZeroDivisionError]                # divide only
        if s.scalar & o.scalar:          <ss body>
        elif s_lo.shape == o_lo.shape:   <vv body>
        elif s.scalar:                   <sv body>
        elif o.scalar:                   <vs body>
        return l, h

ss body : `if <cond>: l, h = e1, e2` or `if <cond>: l = e ; h = e`
array bodies : `l, h = numpy.empty(X.shape), numpy.empty(X.shape)`, `m = <cond>`,
               `l[m] = e`, `h[m] = e` where every array operand in e is subscripted
               by the same mask m and every scalar operand is not subscripted.

Each branch becomes `forall N : Num, N -> N -> N -> N -> option N * option N`
(None = never assigned: numpy.empty garbage or an unbound local).
"""
import ast
import sys


class Unsupported(Exception):
    pass


NAMES = {"s_lo": "sl", "s_hi": "sh", "o_lo": "ol", "o_hi": "oh"}
# which operands are arrays in which shape branch
ARRAYS = {"ss": set(), "vv": {"s_lo", "s_hi", "o_lo", "o_hi"}, "sv": {"o_lo", "o_hi"}, "vs": {"s_lo", "s_hi"}}


def operand(e, tag, mask):
    """a leaf operand; checks the subscript discipline of the branch"""
    if isinstance(e, ast.Name) and e.id in NAMES:
        if e.id in ARRAYS[tag] and mask is not None:
            raise Unsupported(f"array operand {e.id} used without mask in a masked assignment")
        return NAMES[e.id]
    if (isinstance(e, ast.Subscript) and isinstance(e.value, ast.Name) and e.value.id in NAMES
            and isinstance(e.slice, ast.Name)):
        if e.value.id not in ARRAYS[tag]:
            raise Unsupported(f"scalar operand {e.value.id} subscripted")
        if mask is None or e.slice.id != mask:
            raise Unsupported(f"operand {e.value.id}[{e.slice.id}] does not use the target mask {mask}")
        return NAMES[e.value.id]
    raise Unsupported("operand: " + ast.dump(e))


def num(e, tag, mask):
    if isinstance(e, ast.Constant) and type(e.value) is int and e.value == 0:
        return "z0"
    if isinstance(e, ast.BinOp) and isinstance(e.op, (ast.Mult, ast.Div)):
        op = "nmul" if isinstance(e.op, ast.Mult) else "ndiv"
        return f"({op} N {num(e.left, tag, mask)} {num(e.right, tag, mask)})"
    if (isinstance(e, ast.Call) and isinstance(e.func, ast.Attribute) and isinstance(e.func.value, ast.Name)
            and e.func.value.id == "numpy" and e.func.attr in ("min", "max") and len(e.args) == 1
            and isinstance(e.args[0], ast.Tuple) and len(e.keywords) == 1 and e.keywords[0].arg == "axis"
            and isinstance(e.keywords[0].value, ast.Constant) and e.keywords[0].value.value == 0):
        f = "nmin" if e.func.attr == "min" else "nmax"
        xs = [num(a, tag, mask) for a in e.args[0].elts]
        if not xs:
            raise Unsupported("empty min/max")
        acc = xs[0]
        for x in xs[1:]:
            acc = f"({f} {acc} {x})"
        return acc
    return operand(e, tag, mask)


def cond_operand(e):
    # conditions are written on whole operands (no subscripts)
    if isinstance(e, ast.Name) and e.id in NAMES:
        return NAMES[e.id]
    if isinstance(e, ast.Constant) and type(e.value) is int and e.value == 0:
        return "z0"
    raise Unsupported("condition operand: " + ast.dump(e))


def boolean(e):
    if isinstance(e, ast.BinOp) and isinstance(e.op, ast.BitAnd):
        return f"({boolean(e.left)} && {boolean(e.right)})"
    if isinstance(e, ast.Compare) and len(e.ops) == 1 and len(e.comparators) == 1:
        a, b = cond_operand(e.left), cond_operand(e.comparators[0])
        op = e.ops[0]
        if isinstance(op, ast.GtE):
            return f"(nleb N {b} {a})"
        if isinstance(op, ast.LtE):
            return f"(nleb N {a} {b})"
        if isinstance(op, ast.Gt):
            return f"(nltb N {b} {a})"
        if isinstance(op, ast.Lt):
            return f"(nltb N {a} {b})"
    raise Unsupported("condition: " + ast.dump(e))


def is_empty_pair(st):
    return (isinstance(st, ast.Assign) and len(st.targets) == 1 and isinstance(st.targets[0], ast.Tuple)
            and [getattr(t, "id", None) for t in st.targets[0].elts] == ["l", "h"]
            and isinstance(st.value, ast.Tuple) and len(st.value.elts) == 2
            and all(isinstance(v, ast.Call) and ast.unparse(v.func) == "numpy.empty" for v in st.value.elts))


def branch_body(stmts, tag):
    ups, masks = [], {}
    shape_src = None
    for idx, st in enumerate(stmts):
        if is_empty_pair(st):
            if tag == "ss" or idx != 0:
                raise Unsupported("numpy.empty in unexpected place")
            shape_src = [ast.unparse(v.args[0]) for v in st.value.elts]
            want = {"vv": ("s_lo.shape", "o_lo.shape"), "sv": ("o_lo.shape",), "vs": ("s_lo.shape",)}[tag]
            if not all(s in want for s in shape_src):
                raise Unsupported(f"result arrays allocated with shape {shape_src} in branch {tag}")
            continue
        if isinstance(st, ast.If) and not st.orelse:
            if tag != "ss":
                raise Unsupported("if-statement in an array branch")
            c = boolean(st.test)
            for b in st.body:
                if (isinstance(b, ast.Assign) and len(b.targets) == 1 and isinstance(b.targets[0], ast.Tuple)):
                    tl = [getattr(t, "id", None) for t in b.targets[0].elts]
                    if tl != ["l", "h"] or not isinstance(b.value, ast.Tuple) or len(b.value.elts) != 2:
                        raise Unsupported(ast.dump(b))
                    ups.append(("l", c, num(b.value.elts[0], tag, None)))
                    ups.append(("h", c, num(b.value.elts[1], tag, None)))
                elif (isinstance(b, ast.Assign) and len(b.targets) == 1 and isinstance(b.targets[0], ast.Name)
                      and b.targets[0].id in ("l", "h")):
                    ups.append((b.targets[0].id, c, num(b.value, tag, None)))
                else:
                    raise Unsupported(ast.dump(b))
            continue
        if (isinstance(st, ast.Assign) and len(st.targets) == 1 and isinstance(st.targets[0], ast.Name)
                and isinstance(st.value, (ast.BinOp, ast.Compare))):
            if tag == "ss":
                raise Unsupported("mask definition in the scalar branch")
            masks[st.targets[0].id] = boolean(st.value)
            continue
        if (isinstance(st, ast.Assign) and len(st.targets) == 1 and isinstance(st.targets[0], ast.Subscript)
                and isinstance(st.targets[0].value, ast.Name) and st.targets[0].value.id in ("l", "h")
                and isinstance(st.targets[0].slice, ast.Name)):
            m = st.targets[0].slice.id
            if m not in masks or tag == "ss":
                raise Unsupported(f"unknown mask {m}")
            ups.append((st.targets[0].value.id, masks[m], num(st.value, tag, m)))
            continue
        raise Unsupported(ast.dump(st)[:200])
    if tag != "ss" and shape_src is None:
        raise Unsupported("array branch without result allocation")
    return ups


def emit(name, ups):
    out = [f"Definition {name} (N : Num) (sl sh ol oh : N) : option N * option N :=",
           "  let z0 := nofZ N 0 in", "  let l := @None N in let h := @None N in"]
    for (v, c, e) in ups:
        out.append(f"  let {v} := if {c} then Some {e} else {v} in")
    out.append("  (l, h).")
    return "\n".join(out)


GUARD = "other_straddle_zero = numpy.any((o_lo.flatten() <= 0) & (o_hi.flatten() >= 0))"
UNPACK = "s_lo, s_hi, o_lo, o_hi = (s.lo, s.hi, o.lo, o.hi)"


def shape_branches(fn):
    body = list(fn.body)
    if [a.arg for a in fn.args.args] != ["s", "o"]:
        raise Unsupported("signature")
    if ast.unparse(body[0]) != UNPACK:
        raise Unsupported("unpacking: " + ast.unparse(body[0]))
    body = body[1:]
    guard = False
    if fn.name == "divide":
        if len(body) >= 2 and ast.unparse(body[0]) == GUARD and isinstance(body[1], ast.If) \
                and ast.unparse(body[1].test) == "other_straddle_zero" and not body[1].orelse \
                and len(body[1].body) == 1 and ast.unparse(body[1].body[0]) == "raise ZeroDivisionError":
            guard = True
            body = body[2:]
    if len(body) != 2 or not isinstance(body[0], ast.If) or ast.unparse(body[1]) != "return (l, h)":
        raise Unsupported("function layout: " + " | ".join(ast.unparse(b)[:40] for b in body))
    node, res = body[0], {}
    tests = ["s.scalar & o.scalar", "s_lo.shape == o_lo.shape", "s.scalar", "o.scalar"]
    tags = ["ss", "vv", "sv", "vs"]
    for t, tag in zip(tests, tags):
        if ast.unparse(node.test) != t:
            raise Unsupported(f"expected test {t}, got {ast.unparse(node.test)}")
        res[tag] = branch_body(node.body, tag)
        if tag != "vs":
            if len(node.orelse) != 1 or not isinstance(node.orelse[0], ast.If):
                raise Unsupported("elif chain")
            node = node.orelse[0]
        elif node.orelse:
            raise Unsupported("trailing else")
    return res, guard


def translate(src_path):
    tree = ast.parse(open(src_path).read())
    out = [f"(* generated by tools/translate_arith.py from {src_path}; do not edit *)",
           "From Coq Require Import ZArith Bool.", "From PUN Require Import Base.Num.", "Open Scope bool_scope.", ""]
    seen = set()
    for fn in tree.body:
        if isinstance(fn, ast.FunctionDef) and fn.name in ("multiply", "divide"):
            br, guard = shape_branches(fn)
            for tag, ups in br.items():
                out.append(emit(f"{fn.name[:3]}_{tag}", ups))
                out.append("")
            out.append(f"Definition {fn.name[:3]}_has_guard : bool := {'true' if guard else 'false'}.")
            out.append("")
            seen.add(fn.name)
        elif isinstance(fn, (ast.Import, ast.ImportFrom)) or (isinstance(fn, ast.Expr) and isinstance(fn.value, ast.Constant)):
            pass
        else:
            raise Unsupported("top-level: " + ast.dump(fn)[:80])
    if seen != {"multiply", "divide"}:
        raise Unsupported(f"functions found: {sorted(seen)}")
    return "\n".join(out) + "\n"


if __name__ == "__main__":
    sys.stdout.write(translate(sys.argv[1]))
