"""Fail-closed template translator: the Staircase constructor path and the step-wise unary / number operations  ->  Gen/GenCtor.v

These functions are numpy glue whose meaning lies in library calls (np.all, np.diff, sorted, interp1d, np.linspace(dtype=int), ...); each is
recognised STATEMENT BY STATEMENT against the shape recorded below (docstrings and comments ignored) and, when every statement matches, the
Gallina definition that states its meaning over the primitives of Model/Pbox.v is emitted.  Any other statement aborts the translation
(and with it the proofs of C04, C06 and C11 that mention the generated definitions): the hand model was validated against exactly this text.
"""
import ast


class Unsupported(Exception):
    pass


EXPECT = {
 "utils.is_increasing": [
  [
   "arr"
  ],
  [
   "return np.all(np.diff(arr) >= 0)"
  ]
 ],
 "utils.condensation": [
  [
   "bound",
   "number"
  ],
  [
   "if isinstance(bound, list | tuple):\n    return condensation_bounds(bound, number)\nelse:\n    return condensation_bound(bound, number)"
  ]
 ],
 "utils.condensation_bound": [
  [
   "bound",
   "number"
  ],
  [
   "if number > len(bound):\n    raise ValueError('Cannot sample more elements than exist in the list.')",
   "indices = np.linspace(0, len(bound) - 1, number, dtype=int)",
   "new_bound = np.array([bound[i] for i in indices])",
   "return new_bound"
  ]
 ],
 "utils.left_right_switch": [
  [
   "left",
   "right"
  ],
  [
   "if np.all(left >= right):\n    left, right = (right, left)\n    return (left, right)\nelse:\n    return (left, right)"
  ]
 ],
 "constructors.interpolate_p": [
  [
   "p",
   "q"
  ],
  [
   "f = interp1d(p, q, kind='next', fill_value=(p[0], p[-1]), bounds_error=False)",
   "new_p = Params.p_values",
   "new_q = f(new_p)",
   "return (new_p, new_q)"
  ]
 ],
 "pbox_abc.bound_steps_check": [
  [
   "bound"
  ],
  [
   "if len(bound) > Params.steps:\n    bound = condensation(bound, Params.steps)\nelif len(bound) < Params.steps:\n    from .constructors import interpolate_p\n    p_lo, bound = interpolate_p(p=np.linspace(Params.p_lboundary, Params.p_hboundary, len(bound)), q=bound)",
   "return bound"
  ]
 ],
 "pbox_abc.Pbox.__init__": [
  [
   "self",
   "left",
   "right",
   "steps",
   "mean",
   "var",
   "p_values"
  ],
  [
   "left, right = left_right_switch(left, right)",
   "self.left = np.array(left, dtype=float)",
   "self.right = np.array(right, dtype=float)",
   "self.steps = steps",
   "self.mean = mean",
   "self.var = var",
   "self._pvalues = p_values if p_values is not None else Params.p_values",
   "self.post_init_check()"
  ]
 ],
 "pbox_abc.Pbox.post_init_check": [
  [
   "self"
  ],
  [
   "self.steps_check()",
   "if not is_increasing(self.left) or not is_increasing(self.right):\n    raise Exception('Left and right arrays must be increasing')",
   "if np.any(np.asarray(self.left) > np.asarray(self.right)):\n    raise ValueError('Left bound exceeds the right bound at some probability levels')",
   "if not (np.all(np.isfinite(self.left)) and np.all(np.isfinite(self.right))):\n    raise ValueError('p-box bounds must be finite')",
   "if self.mean is None or self.var is None:\n    self._init_moments()",
   "self._init_range()",
   "self.degenerate_flag()"
  ]
 ],
 "pbox_abc.Pbox.steps_check": [
  [
   "self"
  ],
  [
   "assert len(self.left) == len(self.right), 'Length of lower and upper bounds is not consistent'"
  ]
 ],
 "pbox_abc.Staircase.__init__": [
  [
   "self",
   "left",
   "right",
   "steps",
   "mean",
   "var",
   "p_values"
  ],
  [
   "super().__init__(left, right, steps, mean, var, p_values)"
  ]
 ],
 "pbox_abc.Staircase.__neg__": [
  [
   "self"
  ],
  [
   "return Staircase(left=sorted(-np.flip(self.right)), right=sorted(-np.flip(self.left)), mean=-self.mean, var=self.var)"
  ]
 ],
 "pbox_abc.Staircase.env": [
  [
   "self",
   "other"
  ],
  [
   "nleft = np.minimum(self.left, other.left)",
   "nright = np.maximum(self.right, other.right)",
   "return Staircase(left=nleft, right=nright, steps=self.steps)"
  ]
 ],
 "pbox_abc.Staircase.imp": [
  [
   "self",
   "other"
  ],
  [
   "u = []",
   "d = []",
   "for sL, sR, oL, oR in zip(self.left, self.right, other.left, other.right):\n    if max(sL, oL) > min(sR, oR):\n        raise Exception('Imposition does not exist as high left greater than low right')\n    u.append(max(sL, oL))\n    d.append(min(sR, oR))",
   "return Staircase(left=u, right=d)"
  ]
 ],
 "pbox_abc.Staircase._unary_template": [
  [
   "self",
   "f"
  ],
  [
   "l, r = (f(self.left), f(self.right))",
   "return Staircase(left=l, right=r)"
  ]
 ],
 "pbox_abc.Staircase.exp": [
  [
   "self"
  ],
  [
   "return self._unary_template(np.exp)"
  ]
 ],
 "pbox_abc.Staircase.sqrt": [
  [
   "self"
  ],
  [
   "return self._unary_template(np.sqrt)"
  ]
 ],
 "pbox_abc.Staircase.pow": [
  [
   "self",
   "other",
   "dependency"
  ],
  [
   "from .operation import frechet_op, vectorized_cartesian_op",
   "if isinstance(other, Number):\n    if other < 0 and self.lo <= 0 <= self.hi:\n        raise ZeroDivisionError('negative power of a p-box whose support contains zero')\n    if self.straddles_zero():\n        from pyuncertainnumber import pba\n        itvls = self.to_interval()\n        response = itvls ** other\n        return pba.stacking(response)\n    else:\n        return pbox_number_ops(self, other, operator.pow)",
   "if is_un(other):\n    other = convert_pbox(other)",
   "match dependency:\n    case 'f':\n        nleft, nright = frechet_op(self, other, operator.pow)\n    case 'p':\n        nleft = self.left ** other.left\n        nright = self.right ** other.right\n    case 'o':\n        nleft = self.left ** np.flip(other.right)\n        nright = self.right ** np.flip(other.left)\n    case 'i':\n        nleft = vectorized_cartesian_op(self.left, other.left, operator.pow)\n        nright = vectorized_cartesian_op(self.right, other.right, operator.pow)",
   "nleft.sort()",
   "nright.sort()",
   "return Staircase(left=nleft, right=nright)"
  ]
 ],
 "pbox_abc.Staircase.reciprocal": [
  [
   "self"
  ],
  [
   "if self.lo <= 0 <= self.hi:\n    raise ZeroDivisionError('reciprocal of a p-box whose support contains zero')",
   "return Staircase(left=1 / np.flip(self.right), right=1 / np.flip(self.left))"
  ]
 ],
 "pbox_abc.Staircase.log": [
  [
   "self"
  ],
  [
   "if self.lo <= 0:\n    raise ValueError('Logarithm is not defined for non-positive values')",
   "return self._unary_template(np.log)"
  ]
 ],
 "pbox_abc.pbox_number_ops": [
  [
   "pbox",
   "n",
   "f"
  ],
  [
   "l = f(pbox.left, n)",
   "r = f(pbox.right, n)",
   "l = sorted(l)",
   "r = sorted(r)",
   "try:\n    new_mean = f(pbox.mean, n)\nexcept:\n    new_mean = None",
   "return Staircase(left=l, right=r, var=pbox.var)"
  ]
 ]
}


# functions of which only the FIRST statements are constrained (the remainder may change freely): the routing of the binary numpy functions in
# Staircase.__array_ufunc__ (the later statements dispatch the unary functions one by one)
EXPECT_PREFIX = {
 "pbox_abc.Staircase.__array_ufunc__": [["self", "ufunc", "method"], [
   "if method != '__call__':\n    return NotImplemented",
   "binary_ops = {np.add: ('__add__', '__radd__'), np.subtract: ('__sub__', '__rsub__'), np.multiply: ('__mul__', '__rmul__'), np.true_divide: ('__truediv__', '__rtruediv__')}",
   "if ufunc in binary_ops and len(inputs) == 2 and (not kwargs):\n    forward, reflected = binary_ops[ufunc]\n    if isinstance(inputs[0], Staircase):\n        return getattr(inputs[0], forward)(inputs[1])\n    return getattr(self, reflected)(inputs[0])",
 ]],
}
FILES = {"utils": "pba/utils.py", "constructors": "pba/constructors.py", "pbox_abc": "pba/pbox_abc.py"}

GALLINA = r"""
Section C.
Variable N : Num.
Variable steps : nat.
Variable p_lo p_hi : N.
Notation pb := (pbox N).
(* utils.left_right_switch: np.all(left >= right) => exchange.  For two Python lists `>=` is ONE lexicographic comparison (lists = true) *)
Definition gen_left_right_switch (lists : bool) (l r : list N) : list N * list N :=
  if (if lists then lex_ge N l r else all_ge N l r) then (r, l) else (l, r).
(* pbox_abc.bound_steps_check: longer than Params.steps => condensation (utils.condensation_bound: np.linspace(0, len - 1, number, dtype=int));
   shorter => constructors.interpolate_p on np.linspace(p_lboundary, p_hboundary, len) (interp1d kind='next' evaluated on Params.p_values) *)
Definition gen_bound_steps_check (bound : list N) : list N :=
  if Nat.ltb steps (length bound) then condensation N bound steps
  else if Nat.ltb (length bound) steps then interpolate_p N steps p_lo p_hi (linspace N p_lo p_hi (length bound)) bound
  else bound.
(* Pbox.__init__ + the left / right setters + post_init_check: switch, normalise both lengths, steps_check (assert equal lengths),
   is_increasing (np.all(np.diff(arr) >= 0)) of both, np.any(left > right), np.all(np.isfinite(.)) of both (x - x == 0) *)
Definition gen_mk_staircase_gen (lists : bool) (l r : list N) : res pb :=
  let '(l, r) := gen_left_right_switch lists l r in
  let l := gen_bound_steps_check l in let r := gen_bound_steps_check r in
  if negb (Nat.eqb (length l) (length r)) then Raise AssertionErr
  else if is_increasing N l && is_increasing N r then (if crosses N l r then Raise ValueErr
        else if forallb (fun x => neqb N (nsub N x x) nzero) l && forallb (fun x => neqb N (nsub N x x) nzero) r then Ok (l, r) else Raise ValueErr)
       else Raise NotIncreasing.
(* Staircase.__neg__: sorted(-np.flip(right)), sorted(-np.flip(left)) (lists) *)
Definition gen_pneg (p : pb) : res pb :=
  gen_mk_staircase_gen true (nsort N (map (nopp N) (rev (snd p)))) (nsort N (map (nopp N) (rev (fst p)))).
(* Staircase.reciprocal: lo <= 0 <= hi raises; 1 / np.flip(right), 1 / np.flip(left) (arrays) *)
Definition gen_precip (p : pb) : res pb :=
  if nleb N (nth0 N (fst p) 0) nzero && nleb N nzero (lastn N (snd p)) then Raise ZeroDivision
  else gen_mk_staircase_gen false (map (fun x => ndiv N none x) (rev (snd p))) (map (fun x => ndiv N none x) (rev (fst p))).
(* pbox_number_ops: f(left, n), f(right, n), both sorted (lists) *)
Definition gen_pnum (f : N -> N -> N) (p : pb) (c : N) : res pb :=
  gen_mk_staircase_gen true (nsort N (map (fun x => f x c) (fst p))) (nsort N (map (fun x => f x c) (snd p))).
(* Staircase.pow, isinstance(other, Number): other < 0 and lo <= 0 <= hi raises ZeroDivisionError; straddles_zero() (min(left) < 0 < max(right))
   => interval powers + stacking (route0, not translated); else pbox_number_ops(self, other, operator.pow) *)
Definition gen_ppow (powf : N -> N -> N) (route0 : pb -> N -> res pb) (p : pb) (c : N) : res pb :=
  if nltb N c nzero && (nleb N (nth0 N (fst p) 0) nzero && nleb N nzero (lastn N (snd p))) then Raise ZeroDivision
  else if nltb N (minl N (fst p)) nzero && nltb N nzero (maxl N (snd p)) then route0 p c
  else gen_pnum powf p c.
(* Staircase.__array_ufunc__, np.add / subtract / multiply / true_divide with two inputs: when the FIRST input is a p-box, its forward operator is
   applied to the second input - whichever of the two objects numpy handed the call to (the second one when it is of a subclass); otherwise (a numpy
   scalar on the left) the reflected operator of the p-box *)
Definition gen_ufunc_route (first_is_pbox : bool) : ufunc_route := if first_is_pbox then ForwardOfFirst else ReflectedOfSelf.
(* Staircase._unary_template: f(left), f(right) (arrays) *)
Definition gen_punary (f : N -> N) (p : pb) : res pb := gen_mk_staircase_gen false (map f (fst p)) (map f (snd p)).
(* Staircase.env: np.minimum(left, left'), np.maximum(right, right') (arrays) *)
Definition gen_penv (p q : pb) : res pb :=
  gen_mk_staircase_gen false (map2 nmin (fst p) (fst q)) (map2 nmax (snd p) (snd q)).
(* Staircase.imp: level by level max of the lefts / min of the rights, raising at the first level where they cross (lists) *)
Definition gen_pimp (p q : pb) : res pb :=
  let u := map2 nmax (fst p) (fst q) in let d := map2 nmin (snd p) (snd q) in
  if existsb (fun x => nltb N (snd x) (fst x)) (combine u d) then Raise EmptyImp else gen_mk_staircase_gen true u d.
End C.
"""


def normalise(params, stmts):
    """local variables (names bound inside the function, parameters excluded) renamed v0, v1, ... in order of first binding: the comparison
    below does not depend on what a local variable is called"""
    tree = ast.parse("\n".join(stmts)) if stmts and isinstance(stmts[0], str) else ast.Module(body=list(stmts), type_ignores=[])
    order = []

    class Binder(ast.NodeVisitor):
        def visit_Name(self, n):
            if isinstance(n.ctx, ast.Store) and n.id not in params and n.id not in order:
                order.append(n.id)
    Binder().visit(tree)
    ren = {n: f"v{i}" for i, n in enumerate(order)}

    class Ren(ast.NodeTransformer):
        def visit_Name(self, n):
            return ast.copy_location(ast.Name(id=ren.get(n.id, n.id), ctx=n.ctx), n)
    tree = Ren().visit(tree)
    return [ast.unparse(s) for s in tree.body]


def bodies(path, wanted):
    tree = ast.parse(open(path).read())
    out = {}

    def visit(node, prefix):
        for n in node.body:
            if isinstance(n, ast.ClassDef):
                visit(n, n.name + ".")
            elif isinstance(n, ast.FunctionDef) and prefix + n.name in wanted:
                b = [s for s in n.body if not (isinstance(s, ast.Expr) and isinstance(s.value, ast.Constant))]
                out[prefix + n.name] = [[a.arg for a in n.args.args], [ast.unparse(s) for s in b]]
    visit(tree, "")
    return out


def translate(pkg):
    import os
    for mod, rel in FILES.items():
        wanted = {k.split(".", 1)[1] for k in EXPECT if k.startswith(mod + ".")}
        got = bodies(os.path.join(pkg, rel), wanted)
        for name in sorted(wanted):
            if name not in got:
                raise Unsupported(f"{mod}.{name} not found")
            exp = EXPECT[mod + "." + name]
            if got[name][0] != exp[0] or normalise(got[name][0], got[name][1]) != normalise(exp[0], exp[1]):
                k = next((i for i, (a, b) in enumerate(zip(got[name][1], exp[1])) if a != b), min(len(got[name][1]), len(exp[1])))
                what = got[name][1][k] if k < len(got[name][1]) else "(statement missing)"
                raise Unsupported(f"{mod}.{name}: " + ("signature " + str(got[name][0]) if got[name][0] != exp[0] else "statement " + what[:100].replace(chr(10), " / ")))
    for key, exp in EXPECT_PREFIX.items():
        mod, name = key.split(".", 1)
        got = bodies(os.path.join(pkg, FILES[mod]), {name})
        if name not in got:
            raise Unsupported(f"{key} not found")
        k = len(exp[1])
        if got[name][0] != exp[0] or normalise(got[name][0], got[name][1][:k]) != normalise(exp[0], exp[1]):
            raise Unsupported(f"{key}: the first {k} statements (routing of the binary numpy functions) have changed")
    return ("(* generated by tools/translate_ctor.py from " + ", ".join(os.path.join(pkg, r) for r in FILES.values()) + "; do not edit *)\n"
            "From Coq Require Import List Bool ZArith Arith.\nFrom PUN Require Import Base.Num Base.Sort Model.Interval Model.Pbox.\nImport ListNotations.\n" + GALLINA)


if __name__ == "__main__":
    import sys
    print(translate(sys.argv[1]))
