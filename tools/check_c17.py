#!/venv/bin/python
"""C17 - Kolmogorov-Smirnov confidence bands are valid bands around the empirical cdf."""
import math
import os
import sys
from fractions import Fraction

sys.path.insert(0, os.path.dirname(os.path.abspath(__file__)))
import vlib
import pbx
from pbx import np, flist, coq_pout
from vlib import coq_list, hexf

ALPHAS = [0.1, 0.05, 0.025]
A_TAB = {0.1: 0.00256, 0.05: 0.05256, 0.025: 0.11282}


def d_ref(n, alpha):
    return math.sqrt(math.log(1 / alpha) / (2 * n)) - 0.16693 / n - A_TAB[alpha] / (n * math.sqrt(n))


def gen_sample(rng):
    n = rng.choice([2, 3, 5, 8, 13, 30, 60, 100])
    scale = 10 ** rng.uniform(-3, 4)
    style = rng.choice(["cont", "ties", "ties", "ints", "const"])
    if style == "cont":
        s = [rng.gauss(0, 1) * scale for _ in range(n)]
    elif style == "ties":
        base = [round(rng.gauss(0, 1), 1) * scale for _ in range(max(2, n // 3))]
        s = [rng.choice(base) for _ in range(n)]
    elif style == "ints":
        s = [float(rng.randint(-5, 5)) for _ in range(n)]
    else:
        s = [scale] * n
    return s, style


def ecdf_at(data, t):
    return sum(1 for v in data if v <= t) / len(data)


def band_checks(name, q, f, n):
    if len(q) != len(f):
        return f"{name}: quantile and probability arrays differ in length"
    if np.any(np.diff(f) < 0):
        return f"{name}: not non-decreasing"
    if np.any(f < 0) or np.any(f > 1):
        return f"{name}: values outside [0, 1]"
    if np.any(np.diff(q) < 0):
        return f"{name}: abscissae not sorted"
    return None


_KS_CALLS = [0]


def ks_call(KS_bounds, *a, **k):
    """KS_bounds with the plotting switch varied: display=False, display=True and display left at its default in turn"""
    import matplotlib
    matplotlib.use("Agg")
    import matplotlib.pyplot as plt
    _KS_CALLS[0] += 1
    m = _KS_CALLS[0] % 3
    if m == 1:
        k.pop("display", None)
    elif m == 2:
        k["display"] = True
    try:
        return KS_bounds(*a, **k)
    finally:
        plt.close("all")



def body(chk):
    from pyuncertainnumber.pba.pbox_free import KS_bounds, d_alpha
    from pyuncertainnumber.pba.intervals.number import Interval as I
    pbx.patch_fast_moments()
    pr = chk.do_proofs()
    rng = chk.rng
    items, flat = [], []
    # ---- the critical value: formula, positivity, monotonicity in n and alpha, rejection outside the table
    prev = {a: None for a in ALPHAS}
    for n in range(2, 501):
        ds = []
        for a in ALPHAS:
            chk.count("d_alpha", key=("D", n, a), nontrivial=(n in (2, 3, 10, 100, 500)))
            try:
                d = float(d_alpha(n, a))
            except Exception as e:
                chk.report("d_alpha", f"d_alpha({n}, {a}) raises {type(e).__name__}", {"kind": "oracle", "n": n, "alpha": a})
                continue
            ref = d_ref(n, a)
            if abs(d - ref) > 1e-12 * max(1, abs(ref)):
                chk.report("d_alpha", f"d_alpha({n}, {a}) = {d}, reference formula gives {ref}", {"kind": "oracle", "n": n, "alpha": a})
            if not d > 0:
                chk.report("d_alpha", f"d_alpha({n}, {a}) = {d} is not positive", {"kind": "oracle", "n": n, "alpha": a})
            if prev[a] is not None and not d < prev[a]:
                chk.report("d_alpha", f"D does not decrease from n={n - 1} to n={n} at alpha={a}", {"kind": "oracle", "n": n, "alpha": a})
            prev[a] = d
            ds.append(d)
        if len(ds) == 3 and not (ds[0] < ds[1] < ds[2]):
            chk.report("d_alpha", f"D is not decreasing in alpha at n={n}: {ds}", {"kind": "oracle", "n": n})
    for bad_alpha in (0.01, 0.2, 0.5, 0.0250001, 1e-3):
        chk.count("d_alpha-unsupported", key=("bad", bad_alpha))
        try:
            v = d_alpha(50, bad_alpha)
            chk.report("d_alpha:unsupported", f"alpha={bad_alpha} has no tabulated critical value but d_alpha answers {float(v)}", {"kind": "oracle", "alpha": bad_alpha})
        except Exception:
            pass
        try:
            KS_bounds(np.array([1.0, 2.0, 3.0]), bad_alpha, display=False)
            chk.report("KS_bounds:unsupported", f"KS_bounds answers for the unsupported alpha={bad_alpha}", {"kind": "oracle", "alpha": bad_alpha})
        except Exception:
            pass
    # ---- bands
    n_samples = 24 if chk.tier == "quick" else 300
    for si in range(n_samples):
        s, style = gen_sample(rng)
        alpha = ALPHAS[si % 3]
        n = len(s)
        D = float(d_alpha(n, alpha))
        rep = {"kind": "oracle", "sample": s, "alpha": alpha}
        chk.count(f"precise-{style}", key=("P", style, n, alpha, si))
        try:
            bl, br = ks_call(KS_bounds, np.array(s) if si % 2 else list(s), alpha, display=False)
        except Exception as e:
            chk.report("KS_bounds:precise", f"raises {type(e).__name__}: {e}", rep)
            continue
        q, fl, fr = np.array(bl.quantiles, float), np.array(bl.probabilities, float), np.array(br.probabilities, float)
        why = band_checks("upper bound", q, fl, n) or band_checks("lower bound", np.array(br.quantiles, float), fr, n)
        if not why and not np.array_equal(q, np.array(br.quantiles, float)):
            why = "the two bounds are not on a common grid"
        if not why:
            # exactly D above / below the empirical cdf before clipping
            srt = sorted(s)
            for k in range(len(q)):
                p = 0.0 if k == 0 else k / n
                up, dn = min(1.0, max(0.0, p + D)), min(1.0, max(0.0, p - D))
                if abs(fl[k] - up) > 1e-12 or abs(fr[k] - dn) > 1e-12:
                    why = f"at grid point {k} (ecdf level {p}) the bounds are [{fr[k]}, {fl[k]}], expected ecdf -+ D = [{dn}, {up}] with D = {D}"
                    break
                if k > 0 and q[k] != srt[k - 1]:
                    why = f"grid abscissa {k} is {q[k]}, expected the {k}-th order statistic {srt[k - 1]}"
                    break
        if why:
            chk.report("KS_bounds:precise", why, rep)
        items.append(f"KPrecise {flist(s)} {hexf(D)} {flist(q)} {flist(fl)} {flist(fr)}")
        flat.append(("precise", s, alpha))
        # p-box from the band contains the empirical distribution
        try:
            pb = ks_call(KS_bounds, np.array(s), alpha, display=False, output_type="pbox")
            L, R = np.array(pb.left), np.array(pb.right)
            g = np.array(pb.p_values if hasattr(pb, "p_values") else [])
            emp = np.quantile(np.array(s), np.clip(g, 0, 1), method="inverted_cdf") if len(g) else None
            if emp is not None and (np.any(L > emp + 1e-12 * (1 + np.abs(emp))) or np.any(R < emp - 1e-12 * (1 + np.abs(emp)))):
                k = int(np.argmax((L > emp + 1e-12 * (1 + np.abs(emp))) | (R < emp - 1e-12 * (1 + np.abs(emp)))))
                chk.report("KS_bounds:pbox", f"the p-box made from the band does not contain the empirical quantile at level {g[k]}: [{L[k]}, {R[k]}] vs {emp[k]}", rep)
            items.append(f"KPbox {flist(s)} {flist(s)} {hexf(D)} ({coq_pout(('ok', [float(v) for v in L], [float(v) for v in R]))})")
            flat.append(("pbox", s, alpha))
        except Exception as e:
            chk.report("KS_bounds:pbox", f"pbox output raises {type(e).__name__}: {e}", rep)
        # ---- interval data around the sample
        w = [abs(rng.gauss(0, 0.3)) * (abs(v) + 1e-3) if rng.random() < 0.8 else 0.0 for v in s]
        if si % 4 == 3:   # every interval degenerate: interval data that IS a precise sample (the two bounds must still be D above / below the ecdf)
            w = [0.0] * len(s)
        lo, hi = [v - a for v, a in zip(s, w)], [v + a * rng.random() for v, a in zip(s, w)]
        chk.count(f"interval-{style}", key=("I", style, n, alpha, si))
        try:
            il, ir = ks_call(KS_bounds, I(lo, hi), alpha, display=False)
        except Exception as e:
            chk.report("KS_bounds:interval", f"raises {type(e).__name__}: {e}", dict(rep, lo=lo, hi=hi))
            continue
        q1, f1 = np.array(il.quantiles, float), np.array(il.probabilities, float)
        q2, f2 = np.array(ir.quantiles, float), np.array(ir.probabilities, float)
        why = band_checks("interval upper bound", q1, f1, n) or band_checks("interval lower bound", q2, f2, n)
        if why:
            chk.report("KS_bounds:interval", why, dict(rep, lo=lo, hi=hi))
        items.append(f"KInterval {flist(lo)} {flist(hi)} {hexf(D)} {flist(q1)} {flist(f1)} {flist(q2)} {flist(f2)}")
        flat.append(("interval", s, alpha))
        # the interval band contains the band of every selection inside the intervals
        for _ in range(4):
            sel = [rng.choice([a, b, min(b, max(a, a + (b - a) * rng.random()))]) for a, b in zip(lo, hi)]
            sl, sr = ks_call(KS_bounds, np.array(sel), alpha, display=False)
            ts = sorted(set(lo + hi + sel))
            for t in ts:
                up_sel = min(1.0, ecdf_at(sel, t) + D)
                dn_sel = max(0.0, ecdf_at(sel, t) - D)
                up_int = min(1.0, ecdf_at(lo, t) + D)
                dn_int = max(0.0, ecdf_at(hi, t) - D)
                if up_sel > up_int + 1e-12 or dn_sel < dn_int - 1e-12:
                    chk.report("KS_bounds:interval", f"at x={t} the band of a precise selection [{dn_sel}, {up_sel}] is not inside the interval-data band [{dn_int}, {up_int}]", dict(rep, lo=lo, hi=hi, selection=sel))
                    break
            # and the implementation's own bundles agree with these step functions
            def step(qq, ff, t):
                k = int(np.searchsorted(qq[1:], t, side="right"))
                return ff[k]
            for t in ts[:: max(1, len(ts) // 8)]:
                if abs(step(q1, f1, t) - min(1.0, ecdf_at(lo, t) + D)) > 1e-12 or abs(step(q2, f2, t) - max(0.0, ecdf_at(hi, t) - D)) > 1e-12:
                    chk.report("KS_bounds:interval", f"interval-data bounds at x={t} are not ecdf(lower endpoints)+D / ecdf(upper endpoints)-D", dict(rep, lo=lo, hi=hi))
                    break
    # ---- one data object used twice, results held: the same ndarray (and the same Interval vector) goes through KS_bounds with two
    # confidence levels; both results are read AFTER the second call and decided against the data as given
    def _exact(sample, alpha, bl, br):
        n = len(sample)
        D = float(d_alpha(n, alpha))
        q, fl, fr = np.array(bl.quantiles, float), np.array(bl.probabilities, float), np.array(br.probabilities, float)
        srt = sorted(sample)
        if len(q) != n + 1:
            return f"grid has {len(q)} points for {n} data"
        for k in range(len(q)):
            p = 0.0 if k == 0 else k / n
            up, dn = min(1.0, max(0.0, p + D)), min(1.0, max(0.0, p - D))
            if abs(fl[k] - up) > 1e-12 or abs(fr[k] - dn) > 1e-12:
                return f"at grid point {k} the bounds are [{fr[k]}, {fl[k]}], expected ecdf -+ D = [{dn}, {up}] with D = {D}"
            if k > 0 and q[k] != srt[k - 1]:
                return f"grid abscissa {k} is {q[k]}, expected the {k}-th order statistic {srt[k - 1]}"
        return None
    for rd in range(4 if chk.tier == "quick" else 40):
        data = [rng.gauss(0, 3) for _ in range(rng.randint(3, 40))]
        rng.shuffle(data)
        arr = np.array(data)
        a1, a2 = rng.sample([0.025, 0.05, 0.1], 2)
        chk.count("reuse-precise", key=("reuse", rd))
        try:
            r1 = KS_bounds(arr, a1, display=False)
            r2 = KS_bounds(arr, a2, display=False)
            for which, (al, r) in enumerate(((a1, r1), (a2, r2))):
                why = _exact(data, al, r[0], r[1])
                if why:
                    chk.report("KS_bounds:precise:reuse", f"call {which + 1} of two calls on ONE ndarray (alpha {a1} then {a2}), results read after the second call: {why}",
                               {"kind": "oracle", "sample": data, "alphas": [a1, a2]})
                    break
        except Exception as e:
            chk.report("KS_bounds:precise:reuse", f"raises {type(e).__name__}: {e}", {"kind": "oracle", "sample": data, "alphas": [a1, a2]})
        # the same for interval data (degenerate intervals: the band must be that of the precise sample)
        iv = I(list(data), list(data))
        chk.count("reuse-interval", key=("reuse-I", rd))
        try:
            r1 = KS_bounds(iv, a1, display=False)
            r2 = KS_bounds(iv, a2, display=False)
            for which, (al, r) in enumerate(((a1, r1), (a2, r2))):
                why = _exact(data, al, r[0], r[1])
                if why:
                    chk.report("KS_bounds:interval:reuse", f"call {which + 1} of two calls on ONE Interval vector with degenerate elements (alpha {a1} then {a2}): {why}",
                               {"kind": "oracle", "sample": data, "alphas": [a1, a2]})
                    break
        except Exception as e:
            chk.report("KS_bounds:interval:reuse", f"raises {type(e).__name__}: {e}", {"kind": "oracle", "sample": data, "alphas": [a1, a2]})
    chunks = []
    CH = 12
    for s in range(0, len(items), CH):
        chunks.append(("Definition cases : list kcase17 := " + coq_list(items[s:s + CH]).replace("; K", ";\n K") +
                       ".\nDefinition verdicts := map check17 cases.\n", len(items[s:s + CH])))
    exact, rounded, bad, log = vlib.run_coq_cases("C17", chunks, "From PUN Require Import Model.Interval Model.KS Model.PboxArith Corr.CorrPbox Corr.CorrC17.\n", jobs=12)
    chk.corr = {"cases": len(items), "bit_exact": exact, "rounded": rounded, "disagree": len(bad)}
    if log:
        chk.corr["log"] = log[-600:]
    chk.sample({"form": flat[0][0], "sample": flat[0][1][:8], "alpha": flat[0][2]})
    chk.sample({"d_alpha": [(n, a, float(d_alpha(n, a))) for n in (2, 100, 500) for a in ALPHAS][:4]})
    for i in bad[:3]:
        chk.report(f"correspondence:KS:{flat[i][0]}", "model and implementation disagree", {"kind": "correspondence", "form": flat[i][0], "sample": flat[i][1], "alpha": flat[i][2], "coq_log": log[-300:]}, found_input=True)
    if not pr["ok"]:
        if not chk.violations:
            chk.report("proof", "proof obligation no longer checks", chk.proof_broken_replay(), found_input=False)
        else:
            chk.violations[0][0]["proof_broken"] = chk.proof_broken_replay()


RULE = ("d_alpha for every n in 2..500 and every tabulated alpha (formula, positivity, monotone in n and alpha) and for unsupported alphas (must be rejected); "
        "samples of size 2..100 (continuous, with ties, integers, constant; scales 1e-3..1e4) as list and ndarray; interval data around them with several precise "
        "selections each; bounds, p-box output; compared with the Coq model (ecdf, shift, clipping, from_CDFbundle) and with an independent ecdf reference. "
        "distinct key = (form, sample style, n, alpha, index); the 1497 d_alpha evaluations count as non-trivial only at n in {2,3,10,100,500}")
TB = ["translator tools/translate_ks.py (table, constant 0.16693, formula template, rejection guard)",
      "hand-written Model/KS.v + Model/Pbox.v (get_ecdf, from_CDFbundle) tied by the in-Coq run; D enters the run as the implementation's own value",
      "theorems on D use the `interval` tactic of coq-interval: axioms of Coq's primitive floats / 63-bit integers (FloatAxioms.*, Uint63.*) appear in Print Assumptions",
      "n**(-3/2) is modelled as 1/(n*sqrt n) over the reals"]

if __name__ == "__main__":
    chk = vlib.main_wrapper("C17", body)
    sys.exit(chk.finish(rule=RULE, trusted_base=TB))
