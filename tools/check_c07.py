#!/venv/bin/python
"""C07 - uncertain-number hierarchy: degenerate operands reduce to the simpler arithmetic."""
import math
import operator
import os
import sys
import warnings
from fractions import Fraction

sys.path.insert(0, os.path.dirname(os.path.abspath(__file__)))
import vlib
import pbx
from pbx import np, coq_pb, coq_pout
from vlib import coq_list

warnings.filterwarnings("ignore")
OPN = {"Add": "add", "Sub": "sub", "Mul": "mul", "Div": "div"}
KINDS = ["I", "P", "D", "DSS", "x"]


def gen_interval(rng, sign=None):
    sign = sign or rng.choice(["pos", "neg", "straddle", "point", "zero_lo", "zero_hi"])
    a, w = pbx.dyadic(rng, 0.25, 4.0), pbx.dyadic(rng, 0.0, 3.0)
    if sign == "pos":
        return (a, a + w)
    if sign == "neg":
        return (-a - w, -a)
    if sign == "straddle":
        return (-a, w + 0.25)
    if sign == "zero_lo":
        return (0.0, a)
    if sign == "zero_hi":
        return (-a, 0.0)
    return (a, a) if rng.random() < 0.5 else (-a, -a)


def gen_operand(rng, kind):
    if kind == "I":
        lo, hi = gen_interval(rng)
        return {"kind": "I", "lo": lo, "hi": hi}
    if kind == "x":
        return {"kind": "x", "c": rng.choice([2, 3.0, 0.5, -1.5, -2, 1]), "num": rng.choice(["py", "np"])}
    if kind == "D":
        fam = rng.choice(["gaussian", "uniform"])
        if fam == "gaussian":
            return {"kind": "D", "family": fam, "params": [rng.choice([5.0, 8.0, -6.0]), rng.choice([0.25, 0.5])]}
        a = rng.choice([1.0, 2.0, -5.0])
        return {"kind": "D", "family": fam, "params": [a, a + rng.choice([1.0, 2.5])]}
    if kind == "DSS":
        n = rng.randint(2, 5)
        base = rng.choice([1.0, 2.0, -8.0])
        ivs = []
        for _ in range(n):
            a = base + pbx.dyadic(rng, 0, 3)
            ivs.append([a, a + pbx.dyadic(rng, 0, 2)])
        m = [rng.randint(1, 6) for _ in range(n)]
        return {"kind": "DSS", "intervals": ivs, "masses": [x / sum(m) for x in m]}
    k = rng.choice(["pos", "neg", "steps", "precise"])
    L, R = pbx.gen_bounds(rng, 200, k if k != "neg" else "pos", scale=4.0, dy=rng.random() < 0.5)
    if k == "neg":
        L, R = [-v - 0.5 for v in reversed(R)], [-v - 0.5 for v in reversed(L)]
    else:
        L, R = [v + 0.5 for v in L], [v + 0.5 for v in R]
    return {"kind": "P", "L": L, "R": R}


def build(o):
    from pyuncertainnumber import pba
    from pyuncertainnumber.pba.pbox_abc import Staircase
    k = o["kind"]
    if k == "I":
        return pba.I(o["lo"], o["hi"])
    if k == "x":
        return o["c"] if o["num"] == "py" else np.float64(o["c"])
    if k == "D":
        return pba.Distribution(o["family"], tuple(o["params"]))
    if k == "DSS":
        return pba.DempsterShafer(intervals=pba.I([a for a, _ in o["intervals"]], [b for _, b in o["intervals"]]), masses=o["masses"])
    return Staircase(np.array(o["L"]), np.array(o["R"]))


def view(v):
    """(left, right) arrays of the p-box view of any value; a real number is the constant p-box"""
    from pyuncertainnumber.pba.pbox_abc import convert_pbox
    from pyuncertainnumber.pba.params import Params
    if isinstance(v, (int, float, np.floating)):
        return [float(v)] * Params.steps, [float(v)] * Params.steps
    p = convert_pbox(v)
    return [float(x) for x in p.left], [float(x) for x in p.right]


def run(f):
    try:
        r = f()
        L, R = view(r)
        return ("ok", L, R, type(r).__name__)
    except Exception as e:
        return ("exc", pbx.exc_code(e), type(e).__name__ + ": " + str(e)[:80])


def hull(op, a, b):
    """exact corner hull of two intervals (Fractions); None when dividing by an interval containing zero"""
    a = (Fraction(a[0]), Fraction(a[1]))
    b = (Fraction(b[0]), Fraction(b[1]))
    if op == "Div":
        if b[0] <= 0 <= b[1]:
            return None
        f = lambda x, y: x / y
    else:
        f = {"Add": operator.add, "Sub": operator.sub, "Mul": operator.mul}[op]
    cs = [f(x, y) for x in a for y in b]
    return min(cs), max(cs)


def close(x, ref, ulps=8):
    r = float(ref)
    return x == r or abs(x - r) <= ulps * math.ulp(max(abs(r), 1e-300))


def const_eq(out, ref):
    """the p-box (L, R) is the constant p-box of the interval ref"""
    return all(close(v, ref[0]) for v in out[1]) and all(close(v, ref[1]) for v in out[2])


def body(chk):
    from pyuncertainnumber import pba
    from pyuncertainnumber.pba.pbox_abc import convert_pbox
    pbx.patch_fast_moments()
    pr = chk.do_proofs(extra=["Corr/CorrPbox.vo"])
    rng = chk.rng
    items, flat = [], []

    def coq_case(op, d, X, Y, out, site, replay):
        o = ("ok", out[1], out[2]) if out[0] == "ok" else ("exc", out[1])
        items.append(f"({op}, {pbx.DEPS[d]}, {coq_pb(*X)}, {coq_pb(*Y)}, {coq_pout(o)})")
        flat.append((site, replay))

    # ---- A: intervals (and reals as point intervals) under every dependency ----
    # every ordered pairing of sign classes in every run (the routing of products and quotients has a branch per pairing, incl. an
    # end point exactly at zero), then random pairings
    SIGNS = ["pos", "neg", "straddle", "zero_lo", "zero_hi", "point"]
    sign_pairs = [(sa, sb) for sa in SIGNS for sb in SIGNS]
    n_iv = len(sign_pairs) + (0 if chk.tier == "quick" else 120)
    for it in range(n_iv):
        a, b = (gen_interval(rng, sign_pairs[it][0]), gen_interval(rng, sign_pairs[it][1])) if it < len(sign_pairs) else (gen_interval(rng), gen_interval(rng))
        for op in OPN:
            for d in "fpoi":
                for mixed in (False, True):
                    A, B = pba.I(*a), pba.I(*b)
                    pa = convert_pbox(A)
                    out = run(lambda: getattr(pa, OPN[op])(B if mixed else convert_pbox(B), dependency=d))
                    kind = "real" if a[0] == a[1] and b[0] == b[1] else "interval"
                    site = f"hier:{kind}:{op}:{d}"
                    chk.count(f"interval-{op}-{d}", key=(a, b, op, d, mixed))
                    replay = {"kind": "oracle", "expr": f"convert({list(a)}).{OPN[op]}({'I' if mixed else 'convert'}({list(b)}), dependency='{d}')", "observed": out[:1] + out[3:] if out[0] == "ok" else out}
                    ref = hull(op, a, b)
                    if ref is None:
                        if out[0] == "ok" and all(math.isfinite(v) for v in out[1] + out[2]):
                            chk.report(site + ":zero", f"division by an interval containing zero returns a bounded p-box: {replay['expr']}", replay)
                    elif out[0] != "ok":
                        chk.report(site, f"{replay['expr']} fails: {out[2]}; interval arithmetic gives [{float(ref[0])}, {float(ref[1])}]", replay)
                    elif not const_eq(out, ref):
                        chk.report(site, f"{replay['expr']} = [{out[1][0]}..{out[1][-1]}, {out[2][0]}..{out[2][-1]}] is not the constant p-box of the interval result [{float(ref[0])}, {float(ref[1])}]", replay)
                    if not mixed and it % 3 == 0 and (d != 'i' or it % 9 == 0):
                        coq_case(op, d, view(A), view(B), out, site, replay)

    # ---- B: interval op precise distribution = the distribution shifted / scaled by the interval ----
    n_sh = 6 if chk.tier == "quick" else 60
    for _ in range(n_sh):
        iv = gen_interval(rng, rng.choice(["pos", "neg", "point", "straddle"]))
        dsp = gen_operand(rng, "D")
        Dq = view(build(dsp))[0]
        for op in OPN:
            for order in ("ID", "DI"):
                for d in ("bare", "f", "p", "o", "i"):
                    A, B = (pba.I(*iv), build(dsp)) if order == "ID" else (build(dsp), pba.I(*iv))
                    if d == "bare":
                        out = run(lambda: pbx.PYOPS[op](A, B))
                    else:
                        out = run(lambda: getattr(convert_pbox(A), OPN[op])(B, dependency=d))
                    site = f"hier:shift:{op}:{order}:{d}"
                    if d in ("bare", "f") and iv[0] < 0 < iv[1] and (op == "Mul" or (op == "Div" and order == "ID")):
                        site = "hier:shift:frechet-product:straddling-interval"      # the zero-straddling route of frechet_pbox_mul
                    chk.count(f"shift-{op}-{order}-{d}", key=(iv, str(dsp), op, order, d))
                    replay = {"kind": "oracle", "interval": list(iv), "distribution": dsp, "op": op, "order": order, "dependency": d, "observed": out[:1] + out[3:] if out[0] == "ok" else out}
                    # step k of the reference: interval (op) the k-th quantile, then sort lows and highs
                    steps = [hull(op, iv, (q, q)) if order == "ID" else hull(op, (q, q), iv) for q in Dq]
                    if any(s is None for s in steps):
                        if out[0] == "ok" and all(math.isfinite(v) for v in out[1] + out[2]):
                            chk.report(site + ":zero", "division by an interval containing zero returns a bounded p-box", replay)
                        continue
                    refL, refR = sorted(s[0] for s in steps), sorted(s[1] for s in steps)
                    if out[0] != "ok":
                        chk.report(site, f"interval {op} precise distribution fails: {out[2]}", replay)
                    elif not (all(close(x, r, 64) for x, r in zip(out[1], refL)) and all(close(x, r, 64) for x, r in zip(out[2], refR))):
                        k = next(i for i in range(len(refL)) if not (close(out[1][i], refL[i], 64) and close(out[2][i], refR[i], 64)))
                        chk.report(site, f"interval {list(iv)} {op} {dsp['family']}{dsp['params']} ({order}, dependency {d}) is not the distribution shifted/scaled by the interval: "
                                   f"step {k} is [{out[1][k]}, {out[2][k]}], expected [{float(refL[k])}, {float(refR[k])}]", replay)
                    if d != "bare":
                        coq_case(op, d, view(A), view(B), out, site, replay)

    # ---- B2: several FAMILIES with the same parameter values, one after another: each embedding, and interval + distribution, is decided
    # against that family's own quantile function (scipy), not against the library's conversion
    import scipy.stats as sps
    from pyuncertainnumber.pba.params import Params as _P
    pv = np.asarray(_P.p_values, float)
    fams = ["logistic", "gumbel_r", "laplace", "rayleigh", "norm", "logistic"]
    for params in ((1.0, 2.0), (0.5, 0.25)) if chk.tier == "quick" else ((1.0, 2.0), (0.5, 0.25), (-3.0, 1.5), (10.0, 0.5)):
        iv = (3.0, 5.0)
        for fam in fams:
            qref = np.asarray(getattr(sps, fam).ppf(pv, *params), float)
            chk.count(f"families-same-parameters-{fam}", key=("fam", fam, params))
            replay = {"kind": "oracle", "family": fam, "params": list(params), "families_before_with_these_parameters": fams[:fams.index(fam)], "interval": list(iv)}
            try:
                Dd = pba.Distribution(fam, params)
                emb = view(Dd)
            except Exception as e:
                chk.report(f"hier:family:{fam}", f"Distribution('{fam}', {params}) cannot be embedded: {type(e).__name__}: {str(e)[:60]}", replay)
                continue
            if not (all(close(x, r, 256) for x, r in zip(emb[0], qref)) and all(close(x, r, 256) for x, r in zip(emb[1], qref))):
                k = next(i for i in range(len(qref)) if not (close(emb[0][i], qref[i], 256) and close(emb[1][i], qref[i], 256)))
                chk.report(f"hier:family:{fam}", f"Distribution('{fam}', {params}) embedded as a p-box is not that family's quantile function (step {k}: [{emb[0][k]}, {emb[1][k]}] vs {qref[k]})", replay)
                continue
            for order in ("ID", "DI"):
                A, B = (pba.I(*iv), Dd) if order == "ID" else (Dd, pba.I(*iv))
                out = run(lambda: A + B)
                if out[0] != "ok":
                    chk.report(f"hier:family:{fam}:add", f"interval + {fam}{params} fails: {out[2]}", replay)
                elif not (all(close(x, r + iv[0], 256) for x, r in zip(out[1], qref)) and all(close(x, r + iv[1], 256) for x, r in zip(out[2], qref))):
                    chk.report(f"hier:family:{fam}:add", f"interval {list(iv)} + {fam}{params} ({order}) is not that distribution shifted by the interval", replay)

    # ---- C: every pairing of operand kinds, both orders, bare operators: same p-box as converting every operand first ----
    n_mix = 2 if chk.tier == "quick" else 16
    for _ in range(n_mix):
        for ka in KINDS:
            for kb in KINDS:
                if ka == "x" and kb == "x":
                    continue
                oa, ob = gen_operand(rng, ka), gen_operand(rng, kb)
                for op in OPN:
                    A, B = build(oa), build(ob)
                    out = run(lambda: pbx.PYOPS[op](A, B))
                    site = f"mixed:{ka}-{kb}:{op}"
                    chk.count(f"mixed-{ka}-{kb}-{op}", key=(str(oa), str(ob), op))
                    VA, VB = view(A), view(B)
                    replay = {"kind": "oracle", "a": oa, "b": ob, "op": op, "observed": out[:1] + out[3:] if out[0] == "ok" else out}
                    ref = run(lambda: getattr(convert_pbox(A) if ka != "x" else None, OPN[op])(convert_pbox(B) if kb != "x" else B, dependency="f")) if ka != "x" else None
                    if ka == "x":
                        # number on the left: reference from the mirror laws on the p-box view of B
                        c = float(oa["c"])
                        from pyuncertainnumber.pba.pbox_abc import Staircase
                        PB = convert_pbox(B)
                        ref = run(lambda: {"Add": lambda: PB + c, "Sub": lambda: (-PB) + c, "Mul": lambda: PB * c, "Div": lambda: PB.reciprocal() * c}[op]())
                    if ref[0] != out[0]:
                        chk.report(site, f"{ka} {op} {kb}: {'fails (' + out[2] + ')' if out[0] != 'ok' else 'gives a value'} but converting every operand first "
                                   f"{'fails' if ref[0] != 'ok' else 'gives a value'}", replay)
                    elif out[0] == "ok" and not (all(close(x, r, 16) for x, r in zip(out[1], ref[1])) and all(close(x, r, 16) for x, r in zip(out[2], ref[2]))):
                        k = next(i for i in range(len(ref[1])) if not (close(out[1][i], ref[1][i], 16) and close(out[2][i], ref[2][i], 16)))
                        chk.report(site, f"{ka} {op} {kb} differs from the result of converting every operand first: step {k} is [{out[1][k]}, {out[2][k]}] "
                                   f"instead of [{ref[1][k]}, {ref[2][k]}]", replay)
                    if ka not in ("x",) and kb not in ("x",) and not (ka == "I" and kb == "I"):
                        coq_case(op, "f", VA, VB, out, site, replay)

    # ---- D: the mixed-kind helper of pba/operation.py (i_mul: the independent product of any two constructs, used by the vector / matrix
    # products): same p-box as converting both operands first and multiplying under independence
    from pyuncertainnumber.pba import operation as OPM
    for _ in range(1 if chk.tier == "quick" else 6):
        for ka in KINDS:
            for kb in KINDS:
                if "x" in (ka, kb):
                    continue
                oa, ob = gen_operand(rng, ka), gen_operand(rng, kb)
                A, B = build(oa), build(ob)
                out = run(lambda: OPM.i_mul(A, B))
                ref = run(lambda: convert_pbox(A).mul(convert_pbox(B), dependency="i"))
                site = f"helper:i_mul:{ka}-{kb}"
                chk.count(f"i_mul-{ka}-{kb}", key=(str(oa), str(ob), "i_mul"))
                replay = {"kind": "oracle", "a": oa, "b": ob, "function": "pba.operation.i_mul", "observed": out[:1] + out[3:] if out[0] == "ok" else out}
                if ref[0] != out[0]:
                    chk.report(site, f"i_mul({ka}, {kb}) {'fails (' + out[2] + ')' if out[0] != 'ok' else 'gives a value'} but the independent product of the converted operands "
                               f"{'fails' if ref[0] != 'ok' else 'gives a value'}", replay)
                elif out[0] == "ok" and not (all(close(x, r, 16) for x, r in zip(out[1], ref[1])) and all(close(x, r, 16) for x, r in zip(out[2], ref[2]))):
                    k = next(i for i in range(len(ref[1])) if not (close(out[1][i], ref[1][i], 16) and close(out[2][i], ref[2][i], 16)))
                    chk.report(site, f"i_mul({ka}, {kb}) differs from the independent product of the converted operands: step {k} is [{out[1][k]}, {out[2][k]}] "
                               f"instead of [{ref[1][k]}, {ref[2][k]}]", replay)
                elif out[0] == "ok":
                    coq_case("Mul", "i", view(A), view(B), out, site, replay)

    chunks = []
    CH = 8
    for s in range(0, len(items), CH):
        chunks.append(("Definition cases : list acase := " + coq_list(items[s:s + CH]) + ".\nDefinition verdicts := map hcheck cases.\n", len(items[s:s + CH])))
    exact, rounded, bad, log = vlib.run_coq_cases("C07", chunks, "From PUN Require Import Model.Interval Model.PboxArith Corr.CorrPbox Corr.CorrC07.\n", jobs=16, timeout=900)
    chk.corr = {"cases": len(items), "bit_exact": exact, "rounded": rounded, "disagree": len(bad)}
    if log:
        chk.corr["log"] = log[-600:]
    chk.sample({"site": flat[0][0], "replay": flat[0][1]})
    chk.sample({"site": flat[len(flat) // 2][0], "replay": flat[len(flat) // 2][1]})
    seen = set()
    for i in bad:
        site, replay = flat[i]
        if site in seen:
            continue
        seen.add(site)
        chk.report(site, "the mixed-kind expression differs from the model's 'convert every operand, then operate'", dict(replay, kind="correspondence"), found_input=True)
    if not pr["ok"]:
        if not chk.violations:
            chk.report("proof", "proof obligation no longer checks", chk.proof_broken_replay(), found_input=False)
        else:
            chk.violations[0][0]["proof_broken"] = chk.proof_broken_replay()


RULE = ("(A) pairs of intervals of every sign (positive, negative, straddling, touching zero, points = reals) embedded as p-boxes, + - * / under f p o i, second operand converted or "
        "passed as a raw Interval: compared with the exact rational corner hull; (B) interval op precise distribution (gaussian, uniform; both orders; bare operator and every "
        "dependency): compared step by step with the distribution shifted/scaled by the interval; (C) every ordered pair of operand kinds {Interval, Pbox, Distribution, DSS, number} "
        "with bare operators: compared with converting every operand first, in the implementation and in the Coq model (binary64 run). "
        "distinct key = (operands, operator, dependency, order)")
TB = ["translator tools/translate_mixins.py (operator table of Dempster-Shafer structures; closure templates checked statement by statement)",
      "the Python data model (reflected-operator protocol, NotImplemented fall-through) is modelled only through the table and observed by section C",
      "Distribution.to_pbox (scipy ppf) and DempsterShafer.to_pbox enter as returned arrays (their laws are C08/C09)",
      "the zero-straddling Frechet product is not modelled in Coq (oracle only); theorems are over the reals",
      "interval + distribution under Frechet and independence is checked by the oracle only (theorems: perfect, opposite)"]

if __name__ == "__main__":
    chk = vlib.main_wrapper("C07", body)
    sys.exit(chk.finish(rule=RULE, trusted_base=TB))
