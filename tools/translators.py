"""registry of source -> Gallina translators (all fail-closed)"""
import os
from vlib import PKG
import translate_arith
import translate_params
import translate_hedge
import translate_ks
import translate_mixins
import translate_parametric
import translate_free
import translate_kernels
import translate_glue
import translate_ctor
import translate_trig
import translate_context
import translate_tmcmc


def gen_arith():
    return translate_arith.translate(os.path.join(PKG, "pba/intervals/arithmetic.py"))


def gen_params():
    return translate_params.translate(os.path.join(PKG, "pba/params.py"))


def gen_hedge():
    return translate_hedge.translate(os.path.join(PKG, "nlp/language_parsing.py"))


def gen_ks():
    return translate_ks.translate(os.path.join(PKG, "pba/pbox_free.py"))


def gen_dispatch():
    return translate_mixins.translate(os.path.join(PKG, "pba/mixins.py"))


def gen_parametric():
    return translate_parametric.translate(os.path.join(PKG, "pba/pbox_parametric.py"), os.path.join(PKG, "pba/intervals/number.py"))


def gen_free():
    return translate_free.translate(os.path.join(PKG, "pba/pbox_free.py"))


def gen_kernels():
    return translate_kernels.translate(os.path.join(PKG, "pba/operation.py"))


def gen_glue():
    return translate_glue.translate(os.path.join(PKG, "pba/pbox_abc.py"))


def gen_ctor():
    return translate_ctor.translate(PKG)


def gen_trig():
    return translate_trig.translate(os.path.join(PKG, "pba/intervals/methods.py"), os.path.join(PKG, "pba/intervals/number.py"))


def gen_ctx():
    return translate_context.translate(os.path.join(PKG, "pba/context.py"))


def gen_tmcmc():
    return translate_tmcmc.translate(os.path.join(PKG, "calibration/tmcmc.py"))


ALL = [("GenTMCMC", gen_tmcmc), ("GenCtx", gen_ctx), ("GenTrig", gen_trig), ("GenCtor", gen_ctor), ("GenGlue", gen_glue), ("GenKernels", gen_kernels), ("GenFree", gen_free), ("GenParametric", gen_parametric), ("GenDispatch", gen_dispatch), ("GenArith", gen_arith), ("GenParams", gen_params), ("GenHedge", gen_hedge), ("GenKS", gen_ks)]
