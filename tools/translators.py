"""registry of source -> Gallina translators (all fail-closed)"""
import os
from vlib import PKG
import translate_arith


def gen_arith():
    return translate_arith.translate(os.path.join(PKG, "pba/intervals/arithmetic.py"))


ALL = [("GenArith", gen_arith)]
