#!/venv/bin/python
"""writes /verif/MANIFEST.json from the table below"""
import json, os, subprocess
V = os.path.dirname(os.path.dirname(os.path.abspath(__file__)))
ALL = [f"C{i:02d}" for i in range(1, 21)]
CLAIMED = {
 "C01": dict(
   text="Coq theorems (all reals, all shapes): the sign tables translated from arithmetic.py on every run equal the exact corner hull in all four shape branches; every operator / operand kind / side of number.py reduces to that hull element by element, zero divisor raises. Tie: translator + bit-exact in-Coq differential run of the float instance against Interval operators + exact-rational oracle on the implementation.",
   note="Trusted: Coq kernel + vm_compute; Reals axioms (sig_forall_dec, sig_not_dec, functional_extensionality_dep); translate_arith.py; hand model of number.py dispatch/broadcasting validated only by the differential run; IEEE rounding gap (theorems over R, run over binary64, <=16 ulp agreement rule).",
   technique="Coq proof over translated sign tables + in-Coq differential run", ref="5/C01"),
 "C02": dict(
   text="Coq theorems (any number of steps n, every selection of one point per focal step, every permutation coupling): the k-th smallest outcome lies in the k-th step of frechet_op's result for any operation nondecreasing on an upward-closed domain (instances: + on all reals, x on non-negative operands); index arithmetic j+k=i / j+k=n-1+i proved pair by pair. Tie: bit-exact in-Coq differential run of the model against frechet_op / naive Frechet (stubs, n<=8) and Pbox.add/sub/mul/div('f') + bare operators at 200 steps; exact oracle enumerates all n! couplings for n<=5 (soundness + attainment) and compares the API with an independent Frank-Nelsen-Sklar reference.",
   note="Partial: tightness is not a Coq theorem (checked exhaustively by the oracle for n<=5 and by the reference formula at n=200); the zero-straddling product route (naive + Balch + imposition) is not modelled in Coq (oracle: sampled + extremal couplings). Couplings = permutation matrices. Trusted: kernel, Reals axioms, hand model of operation.py/pbox_abc.py validated by the differential run, translate_params.py.",
   technique="Coq proof (rank/counting argument over all permutations) + in-Coq differential run + exact coupling enumeration", ref="5/C02"),
 "C03": dict(
   text="Coq theorems (any n, any sign, any operation): perfect_op / opposite_op / independent_op equal the sorted lower and upper endpoints of the exact interval combinations (C01 corner hulls) of step k with step k / step n-1-k / all n*n pairs; condensation picks order statistic k(n+1), inside the k-th block; + on well-formed operands is step-wise with no reordering; opposite arithmetic on the negated operand = perfect arithmetic on the step-wise negation (mirrored pairing of - and /). Tie: bit-exact in-Coq differential run of kernels (stubs) and Pbox.add/sub/mul/div(p|o|i) + bare operators at 200 steps; exact random-set oracle.",
   note="Trusted: kernel, Reals axioms, hand model validated by the differential run; condensation index modelled on exact integers (numpy computes it in floats).",
   technique="Coq refinement proof (model = random-set spec) + in-Coq differential run + exact random-set oracle", ref="5/C03"),
 "C06": dict(
   text="Coq theorems for every well-formed p-box of the configured length and every real c: P op c for a map nondecreasing in P keeps every step's image in place, a decreasing map exchanges and reverses the bounds (step k = image of step n-1-k); -P, -(-P)=P, reciprocal of a one-signed p-box (zero in the support raises), any map monotone on a domain containing the support, c-P = -(P-c), P*0 = 0; the Staircase constructor (incl. the lexicographic list comparison of left_right_switch) is part of the model. Tie: bit-exact in-Coq differential run over 14 operations x 4 number kinds x 8 p-box kinds at 200 steps + exact step-image oracle + law checks.",
   note="Trusted: kernel, Reals axioms, hand model of pbox_number_ops/__neg__/reciprocal/_unary_template/Staircase validated by the differential run; numpy exp/log/sqrt/power enter as oracle arrays; zero-straddling P**c is oracle-only.",
   technique="Coq proof over the Staircase-constructor model + in-Coq differential run + exact step-image oracle", ref="5/C06"),
 "C11": dict(
   text="Coq theorems for well-formed p-boxes of the configured length: Pbox.env / imp return the pointwise min/max bounds, imp raises exactly when the meet is empty (and cannot be empty when a common member exists); env is the least upper bound and imp the greatest lower bound of the containment order; both are commutative, associative, idempotent; folding env over a family is independent of the order of listing; the support-based `in` test is monotone. Tie: bit-exact in-Coq differential run of the fold over 1..5 converted operands of mixed kinds + exact pointwise oracle on envelope()/imposition(), all orders of listing, idempotence, interval hull, `in`.",
   note="Trusted: kernel, Reals axioms, hand model of env/imp/Staircase validated by the differential run; conversion of non-p-box operands is the library's own (C07-C09).",
   technique="Coq lattice proofs over the env/imp model + in-Coq differential run + pointwise oracle", ref="5/C11"),
 "C18": dict(
   text="Coq theorems for every well-formed p-box on the configured grid (length and strict monotonicity of the grid proved for the constants translated from params.py): alpha_cut(a) is the focal interval at the first grid level of minimal distance to a, a grid level is its own nearest level, alpha-cuts are monotone in the level, cdf and alpha-cut are inverse within one grid step (the cut at the reported probability is a bound value nearest to x), native discretisation returns the focal intervals, every outer interval contains all alpha-cuts of its band, widest PI contains narrowest and is monotone in coverage; narrowest monotone where it exists (PARTIAL: fallback breaks it - known finding O24). Tie: bit-exact in-Coq run of 7 query kinds on p-boxes of every kind + independent nearest-level oracle.",
   note="Partial: condensation-contains-original is oracle-only; narrowest-PI monotonicity proved only without the fallback (O24 open), cdf raising on flat runs is O25 (open). Trusted: kernel, Reals axioms, hand model validated by the differential run, translate_params.py, linspace model.",
   technique="Coq proofs about first-argmin lookup on a strictly increasing grid + in-Coq differential run + independent oracle", ref="5/C18"),
 "C08": dict(
   text="Coq theorems (any number of focal elements, any masses >= 0 whose total reaches the level): the value returned by get_ecdf + extend_ecdf + 'next' interpolation at a level is an endpoint whose cumulated mass reaches the level while no smaller value's does (generalised inverse of Pl / Bel); by uniqueness it is independent of the order of listing and unchanged by splitting a focal element; monotone in the level; lower-endpoint bound <= upper-endpoint bound; stacking = Staircase constructor over these values on the grid; with n equal masses level a_t returns step t whenever t/n < a_t <= (t+1)/n, and the grid translated from params.py satisfies that at all 200 steps (round trip). Tie: bit-exact in-Coq run of stacking()/DempsterShafer.to_pbox()/stochastic_mixture() + exact-rational generalised-inverse oracle at all grid levels, permuted and split re-runs, round trips.",
   note="Trusted: kernel, Reals axioms, hand model validated by the differential run (interp1d 'next' as q[#{p_j<a}] clipped, cumsum as left fold, argsort as stable sort - value ties with inexact masses are excluded from generated cases because numpy's argsort is not stable), translate_params.py. At a level hit within rounding by a cumulated mass either neighbouring value is accepted.",
   technique="Coq proof (sorted prefix sums = order-free cumulated mass; uniqueness of the generalised inverse) + in-Coq differential run + exact oracle", ref="5/C08"),
 "C16": dict(
   text="Coq theorems over a pure-data model of the token-based context variable (closed under the global context, no axioms): after the exit event of a block (normal, exception, generator close = token reset) the value in force before the block is back, for any events in between; well-bracketed nesting of any depth and width returns to the initial state; for EVERY interleaving of the events of any number of execution contexts, what a context observes and where it ends are those of its own history run alone (induction over the interleaving); a new thread starts from the default, a task from a copy of its creator's value. Tie: real threads and asyncio tasks are driven event by event through enumerated / sampled schedules; get_current_dependency() after every event is compared with the model inside Coq and with an independent stack oracle; bare operators are compared with the explicit methods, unknown codes must fail.",
   note="Modelled, not verified: CPython contextvars / threading / asyncio semantics; the with-statement is performed by calling __enter__/__exit__ as the statement does. Schedules are bounded samples on the implementation side; the theorem covers all.",
   technique="Coq proof by induction over interleavings (non-interference) + trace correspondence on real threads / asyncio tasks", ref="5/C16"),
 "C05": dict(
   text="Coq theorems over the reals (libm functions as oracles instantiated by exp, ln, sqrt, x^k): exp, log (positive argument, else raise), sqrt, tanh = 1-2/(1+exp 2x) and the logistic function return exactly [f lo, f hi] = [min f, max f]; abs returns exactly [min|x|, max|x|] with both ends attained; X**k encloses x^k for every k >= 0 and every sign of X; for k < 0 it encloses 1/x^|k| when 0 is outside X and raises ZeroDivisionError when a pole lies in X; sin / cos PARTIAL (only intervals at least one period wide are theorems). Tie: bit-exact in-Coq run of the scalar and array case tables of sin/cos/tan (incl. argument reduction and masks), abs/sqrt/exp/log, tanh, sigmoid, __pow__, with libm values and float remainders as recorded tables + dense-sampling enclosure / exactness oracle + array-vs-scalar comparison.",
   note="Partial: the sin/cos/tan case tables for intervals shorter than a period are not Coq theorems (differential run + dense sampling only). numpy libm and % are oracles; numpy.pi is the binary64 literal, theorems use the real PI. Known finding O28 (array form vs scalar form on the pi/2 grid).",
   technique="Coq proofs of exactness / enclosure with libm as oracle + in-Coq differential run of the case tables + dense-sampling oracle", ref="5/C05"),
 "C13": dict(
   text="Coq theorems over a deep-embedded grammar of response functions (+ - * / x^k exp sqrt, repeated variables, any depth, any dimension): direct interval evaluation encloses the point value for every point of the box (fundamental theorem of interval arithmetic, by induction on the expression, on top of the C01/C05 theorems); the tiles of subintervalise cover the box; subinterval reconstitution with direct evaluation encloses the true range; the vertex method returns exactly the min/max over the 2^d corners, both attained at points of the box (hence inside the true range). Tie: each random function is rendered as a Python callable and as a Coq term; b2b(direct | endpoints | subinterval/direct | subinterval/endpoints), n_sub 1..8, d 1..4, compared bit-exactly with the model + nesting relations against a sampled range + tiling check.",
   note="Partial: containment of subinterval/direct in the un-subdivided direct result and 'subinterval/endpoints between vertex and true range' are oracle-checked here (isotonicity is C12's theorem); exactness of the vertex method for coordinate-wise monotone functions is not proved. numpy.exp enters as recorded table; functions with x**k, k>2 are oracle-only (numpy libm power). ga / bo / cauchy strategies are outside the property.",
   technique="Coq proof by structural induction over the expression grammar + in-Coq differential run of all four strategies + sampled-range oracle", ref="5/C13"),
 "C12": dict(
   text="Coq theorems: the corner hull of + - * / is isotone in both operands (it is the exact range: attained + enclosing), integer powers are isotone (both ends attained), EVERY nested expression of the response-function grammar is isotone in the whole box (structural induction, any depth); Frechet bounds are isotone for operations nondecreasing in both arguments; perfect dependence (step-wise hulls + order-preserving sort) for any operation and sign; envelope, imposition; stacking with fixed masses (generalised inverse is monotone in the endpoints); sorting preserves the pointwise order. The proof closure contains the translated sign tables. Tie: pairs of executions (X,Y),(X',Y) of the implementation with X inside X' over interval ops (all shapes/kinds/orders), b2b direct/subinterval on random nested functions, p-box arithmetic f/p/o/i, constants, unary maps, env, imp, stacking, nested expressions.",
   note="No correspondence run of its own (the models are tied to the code by the C01, C03, C05, C06, C08, C11, C13 runs). Opposite / independent dependence, operations with constants and unary maps are covered by the pair oracle (their step-wise forms are theorems of C03/C06). Slicing (mixed propagation) isotonicity is checked under C14.",
   technique="Coq proofs (exact-range argument, structural induction) + pairwise execution oracle on the implementation", ref="5/C12"),
}
NA_REASON = "no check registered yet in this revision of the framework (work in progress, see DESIGN.md section 9)"
base = json.load(open("/root/.vp/BASELINE.json"))
m = {
 "version": 1,
 "setup_cmd": "cd /verif && /venv/bin/python tools/setup.py",
 "hooks": {"guard": "PYUNCERTAINNUMBER_VERIF", "enable": "no hooks in the source tree; harness-side monkeypatching only",
           "baseline_off_cmd": "cd /repo && /venv/bin/python -m pytest -ra -q -p no:cacheprovider --timeout=900 --continue-on-collection-errors",
           "source_commits": [], "add_only": True},
 "engines": [{"name": "coq-development", "path": "coq/", "serves_properties": sorted(CLAIMED), "kind_free_text": "Coq 8.16 model (generic over Num: reals for theorems, binary64 for runs), proofs, property statements"},
             {"name": "harness", "path": "tools/", "serves_properties": sorted(CLAIMED), "kind_free_text": "translators, in-Coq correspondence runs, exact-rational property oracles, evidence writer"}],
 "checks": [],
 "not_applicable": [],
 "notes": "fix: commits in /repo and their failing inputs are listed in known_findings.json (status fixed).",
}
for pid in ALL:
    if pid in CLAIMED:
        c = CLAIMED[pid]
        m["checks"].append({
            "property_id": pid, "quick_cmd": f"./check {pid} quick", "thorough_cmd": f"./check {pid} thorough",
            "evidence_file": f"/verif/evidence/{pid}.json", "replay_cmd_template": f"/venv/bin/python tools/check_{pid.lower()}.py --replay {{path}}",
            "engine": "coq-development",
            "level_claimed": {"category": "proof", "text": c["text"], "design_ref": c["ref"]},
            "level_note": c["note"], "technique": c["technique"]})
    else:
        m["not_applicable"].append({"property_id": pid, "reason": NA_REASON})
json.dump(m, open(os.path.join(V, "MANIFEST.json"), "w"), indent=1)
print("claimed:", sorted(CLAIMED))
