"""Fail-closed translator: nlp/language_parsing.py hedge_interpret (interval branch) -> Gen/GenHedge.v

Each `case "<kw>": return I.from_meanform(x, E)` / `return I(E1, E2)` arm becomes a pair of bounds
    BOff sx c s    meaning   sx * x  +  c * 10^(-(d + s))      (c a signed rational; c = 0 means the number itself)
    BPInf / BNInf  for +-numpy.inf
    BOther         for arms that are not of this shape (count, order, between, default)
Also checks how d is obtained (decipher_d on the numeral string, -Decimal(..).as_tuple().exponent).
"""
import ast
from fractions import Fraction


class Unsupported(Exception):
    pass


def pow10(node):
    """10 ** (-d) -> 0 ; 10 ** (-(d + k)) -> k ; else None"""
    if not (isinstance(node, ast.BinOp) and isinstance(node.op, ast.Pow) and isinstance(node.left, ast.Constant) and node.left.value == 10):
        return None
    e = node.right
    if isinstance(e, ast.UnaryOp) and isinstance(e.op, ast.USub):
        inner = e.operand
        if isinstance(inner, ast.Name) and inner.id == "d":
            return 0
        if (isinstance(inner, ast.BinOp) and isinstance(inner.op, ast.Add) and isinstance(inner.left, ast.Name) and inner.left.id == "d"
                and isinstance(inner.right, ast.Constant) and type(inner.right.value) is int):
            return inner.right.value
    return None


def lin(node):
    """-> ('lin', sx, c, s) | ('inf', sign) | None"""
    if isinstance(node, ast.Name) and node.id == "x":
        return ("lin", 1, Fraction(0), 0)
    if isinstance(node, ast.Constant) and type(node.value) in (int, float):
        return ("const", Fraction(str(node.value)))
    if isinstance(node, ast.Attribute) and ast.unparse(node) == "np.inf":
        return ("inf", 1)
    if isinstance(node, ast.UnaryOp) and isinstance(node.op, ast.USub):
        v = lin(node.operand)
        if v and v[0] == "inf":
            return ("inf", -v[1])
        if v and v[0] == "const":
            return ("const", -v[1])
        return None
    p = pow10(node)
    if p is not None:
        return ("lin", 0, Fraction(1), p)
    if isinstance(node, ast.BinOp) and isinstance(node.op, ast.Mult):
        a, b = lin(node.left), lin(node.right)
        if a and b and a[0] == "const" and b[0] == "lin" and b[1] == 0:
            return ("lin", 0, a[1] * b[2], b[3])
        if a and b and b[0] == "const" and a[0] == "lin" and a[1] == 0:
            return ("lin", 0, b[1] * a[2], a[3])
        if a and b and a[0] == "const" and b[0] == "const":
            return ("const", a[1] * b[1])
        return None
    if isinstance(node, ast.BinOp) and isinstance(node.op, (ast.Add, ast.Sub)):
        a, b = lin(node.left), lin(node.right)
        sg = 1 if isinstance(node.op, ast.Add) else -1
        if a and b and a[0] == "lin" and b[0] == "lin" and a[2] == 0 and b[1] == 0:
            return ("lin", a[1], sg * b[2], b[3])
        return None
    return None


def bound(v):
    if v is None:
        return None
    if v[0] == "inf":
        return "BPInf" if v[1] > 0 else "BNInf"
    if v[0] == "lin":
        c = v[2]
        return f"BOff {v[1]} ({c.numerator} # {c.denominator}) {v[3]}"
    return None


def translate(path):
    src = open(path).read()
    tree = ast.parse(src)
    fn = [n for n in tree.body if isinstance(n, ast.FunctionDef) and n.name == "hedge_interpret"]
    dd = [n for n in tree.body if isinstance(n, ast.FunctionDef) and n.name == "decipher_d"]
    if len(fn) != 1 or len(dd) != 1:
        raise Unsupported("hedge_interpret / decipher_d not found")
    # d = decimal place of the last written digit of the numeral string
    body = [s for s in dd[0].body if not (isinstance(s, ast.Expr) and isinstance(s.value, ast.Constant))]
    if len(body) != 1 or ast.unparse(body[0]) != "return -Decimal(str(x)).as_tuple().exponent":
        raise Unsupported("decipher_d: " + " ; ".join(ast.unparse(b) for b in body))
    calls = [n for n in ast.walk(fn[0]) if isinstance(n, ast.Assign) and ast.unparse(n.value) == "decipher_d(x)"]
    if len(calls) != 1:
        raise Unsupported("d = decipher_d(x) not found exactly once")
    # d must be computed before x is converted from the numeral string
    assigns_x = [n for n in ast.walk(fn[0]) if isinstance(n, ast.Assign) and ast.unparse(n.targets[0]) == "x"]
    conv = [n for n in assigns_x if ast.unparse(n.value) in ("float(x)", "int(x)")]
    if not conv or min(c.lineno for c in conv) < calls[0].lineno:
        raise Unsupported("the numeral is converted before its decimal place is read")
    match = [n for n in ast.walk(fn[0]) if isinstance(n, ast.Match) and ast.unparse(n.subject) == "kwd"]
    if len(match) != 1:
        raise Unsupported("match kwd not found")
    rows = []
    for case in match[0].cases:
        pats = []
        p = case.pattern
        if isinstance(p, ast.MatchValue) and isinstance(p.value, ast.Constant) and isinstance(p.value.value, str):
            pats = [p.value.value]
        elif isinstance(p, ast.MatchAs) and p.pattern is None:
            pats = ["_"]
        else:
            raise Unsupported("case pattern: " + ast.unparse(p))
        st = [s for s in case.body if not isinstance(s, ast.Expr)]
        lo = hi = None
        if len(st) == 1 and isinstance(st[0], ast.Return) and isinstance(st[0].value, ast.Call):
            call = st[0].value
            f = ast.unparse(call.func)
            if f == "I.from_meanform" and len(call.args) == 2 and not call.keywords and ast.unparse(call.args[0]) == "x":
                hw = lin(call.args[1])
                if hw and hw[0] == "lin" and hw[1] == 0:
                    lo, hi = ("lin", 1, -hw[2], hw[3]), ("lin", 1, hw[2], hw[3])
            elif f == "I" and len(call.args) == 2 and not call.keywords:
                lo, hi = lin(call.args[0]), lin(call.args[1])
        blo, bhi = bound(lo), bound(hi)
        for pat in pats:
            rows.append((pat, blo or "BOther", bhi or "BOther") if (blo and bhi) else (pat, "BOther", "BOther"))
    names = [r[0] for r in rows]
    if len(set(names)) != len(names):
        raise Unsupported("duplicate hedge keyword")
    out = [f"(* generated by tools/translate_hedge.py from {path}; do not edit *)",
           "From Coq Require Import ZArith QArith String List.", "Import ListNotations.", "Open Scope string_scope.", "",
           "(* sx * x + c * 10^(-(d+s)) *)",
           "Inductive bound := BOff (sx : Z) (c : Q) (s : Z) | BPInf | BNInf | BOther.",
           "Definition hedge_table : list (string * (bound * bound)) :=", "  ["]
    out.append(";\n".join(f'   ("{k}", ({lo}, {hi}))' for k, lo, hi in rows))
    out += ["  ].", ""]
    return "\n".join(out)


if __name__ == "__main__":
    import sys
    print(translate(sys.argv[1]))
