#!/venv/bin/python
"""C03 - perfect / opposite / independent p-box arithmetic match their random-set meaning."""
import math
import os
import sys
from fractions import Fraction

sys.path.insert(0, os.path.dirname(os.path.abspath(__file__)))
import vlib
import pbx
from pbx import np, Stub, coq_pb, coq_pout, fr
from vlib import coq_list

FOPS = {"Add": lambda a, b: a + b, "Sub": lambda a, b: a - b, "Mul": lambda a, b: a * b, "Div": lambda a, b: a / b}


def kernel_cases(chk, tier):
    rng = chk.rng
    out = []
    for _ in range(600 if tier == "quick" else 8000):
        n = rng.choice([1, 2, 3, 4, 4, 5, 6, 8])
        fn = rng.choice(["KPerfect", "KOpposite", "KIndep"])
        op = rng.choice(["Add", "Mul"])
        kx, ky = rng.choice(pbx.KINDS), rng.choice(pbx.KINDS)
        out.append((fn, op, pbx.gen_bounds(rng, n, kx), pbx.gen_bounds(rng, n, ky), (kx, ky, n)))
    return out


def run_kernel(case):
    from pyuncertainnumber.pba import operation as O
    fn, op, X, Y, _ = case
    f = {"KPerfect": O.perfect_op, "KOpposite": O.opposite_op, "KIndep": O.independent_op}[fn]
    l, r = f(Stub(*X), Stub(*Y), pbx.PYOPS[op])
    return [float(v) for v in l], [float(v) for v in r]


def random_set(op, pairing, X, Y, exact=True):
    """bounds of the combined random set: sorted lower / upper endpoints of the step combinations"""
    conv = fr if exact else (lambda v: [float(t) for t in v])
    XL, XR, YL, YR = map(conv, (X[0], X[1], Y[0], Y[1]))
    n = len(XL)
    f = FOPS[op]
    if pairing == "p":
        pairs = [(k, k) for k in range(n)]
    elif pairing == "o":
        pairs = [(k, n - 1 - k) for k in range(n)]
    else:
        pairs = [(j, k) for j in range(n) for k in range(n)]
    lows, highs = [], []
    for j, k in pairs:
        lo, hi = pbx.iv_op(f, (XL[j], XR[j]), (YL[k], YR[k]))
        lows.append(lo)
        highs.append(hi)
    return sorted(lows), sorted(highs)


def kernel_oracle(case, out):
    fn, op, X, Y, _ = case
    pairing = {"KPerfect": "p", "KOpposite": "o", "KIndep": "i"}[fn]
    refL, refR = random_set(op, pairing, X, Y)
    why = pbx.arrays_close(out[0], refL, 4) or pbx.arrays_close(out[1], refR, 4)
    return ("differs from the bounds of the combined random set: " + why) if why else None


# --------------------------------------------------------------------------- API
def api_cases(chk, tier):
    rng = chk.rng
    out = []
    plan = {"p": 12, "o": 12, "i": 8} if tier == "quick" else {"p": 120, "o": 120, "i": 24}
    for d, cnt in plan.items():
        combos = [(op, kx, ky) for op in ("Add", "Sub", "Mul", "Div")
                  for kx in ("pos", "neg", "straddle", "steps", "interval") for ky in ("pos", "neg", "straddle", "precise")]
        rng.shuffle(combos)
        for i in range(cnt):
            op, kx, ky = combos[i % len(combos)]
            if op == "Div" and ky == "straddle":
                ky = rng.choice(["pos", "neg"])
            X = pbx.gen_bounds(rng, 200, kx, dy=rng.random() < 0.5)
            Y = pbx.gen_bounds(rng, 200, ky, dy=rng.random() < 0.5)
            out.append((op, d, X, Y, (kx, ky), rng.random() < 0.35))
    # sessions: ONE pair of operand objects goes through every operation under every dependency in a row (the operand lists are shared, so
    # pbx.staircase_of hands the same objects to each case); every answer is decided against the bounds the operands were built from
    for kx, ky in ((("pos", "neg"), ("straddle", "pos")) if tier == "quick" else (("pos", "neg"), ("straddle", "pos"), ("neg", "neg"), ("steps", "pos"), ("neg", "straddle"))):
        X = pbx.gen_bounds(rng, 200, kx, dy=True)
        Y = pbx.gen_bounds(rng, 200, ky, dy=True)
        seq = [(op, d) for d in "poi" for op in ("Mul", "Div", "Add", "Sub") if not (op == "Div" and ky == "straddle")]
        rng.shuffle(seq)
        for op, d in seq[:6 if tier == "quick" else 12]:
            out.append((op, d, X, Y, (kx, ky, "session"), rng.random() < 0.35))
    # other public routes to the same arithmetic: the numpy functions np.add / np.subtract / np.multiply / np.divide (second operand a plain
    # Staircase or a parametric-class Leaf with the same bounds), and the operators of UncertainNumber objects whose constructs are p-boxes or a
    # Distribution (whose p-box supplies the bounds X the answer is decided against)
    from pyuncertainnumber.pba.pbox_abc import convert_pbox
    from pyuncertainnumber.pba.distributions import Distribution
    routes = ["ufunc", "ufunc-leaf", "un", "un-dist"]
    for i in range(8 if tier == "quick" else 64):
        route = routes[i % 4]
        d = "po"[(i // 4) % 2] if (tier == "quick" or i % 5) else "i"
        op = ("Sub", "Div", "Add", "Mul")[(i // 8 + i) % 4]
        kx, ky = rng.choice(["pos", "neg", "straddle"]), rng.choice(["pos", "neg"])
        X = pbx.gen_bounds(rng, 200, kx, dy=True)
        Y = pbx.gen_bounds(rng, 200, ky, dy=True)
        kinds = (kx, ky, route)
        if route == "un-dist":
            fam, par = rng.choice([("uniform", (round(rng.uniform(-3, 1), 2), round(rng.uniform(1.5, 4), 2))), ("gaussian", (round(rng.uniform(-2, 5), 2), round(rng.uniform(0.3, 2), 2)))])
            pb = convert_pbox(Distribution(fam, par))
            X = ([float(v) for v in pb.left], [float(v) for v in pb.right])
            kinds = ("dist", ky, route, fam, par)
        out.append((op, d, X, Y, kinds, route))
    return out


def run_api(case):
    from pyuncertainnumber.pba.pbox_abc import Staircase
    from pyuncertainnumber import pba
    op, d, X, Y, _, bare = case
    try:
        x, y = pbx.staircase_of(X), pbx.staircase_of(Y)
        if isinstance(bare, str):
            from pyuncertainnumber.pba.pbox_abc import Leaf
            from pyuncertainnumber import UncertainNumber
            if bare.startswith("ufunc"):
                if bare == "ufunc-leaf":
                    y = Leaf(left=np.array(Y[0]), right=np.array(Y[1]))
                with pba.dependency(d):
                    r = {"Add": np.add, "Sub": np.subtract, "Mul": np.multiply, "Div": np.divide}[op](x, y)
            else:
                ux = UncertainNumber(essence="distribution", distribution_parameters=[case[4][3], tuple(case[4][4])]) if bare == "un-dist" else UncertainNumber.from_pbox(x)
                with pba.dependency(d):
                    r = pbx.PYOPS[op](ux, UncertainNumber.from_pbox(y))
                r = r._construct
        elif bare:
            with pba.dependency(d):
                r = pbx.PYOPS[op](x, y)
        else:
            r = {"Add": x.add, "Sub": x.sub, "Mul": x.mul, "Div": x.div}[op](y, dependency=d)
        return ("ok", [float(v) for v in r.left], [float(v) for v in r.right])
    except Exception as e:
        return ("exc", pbx.exc_code(e), type(e).__name__ + ": " + str(e)[:100])


def api_oracle(case, out):
    op, d, X, Y, _, _ = case
    if op == "Div" and min(Y[0]) <= 0 <= max(Y[1]):
        # a divisor whose support contains zero: the quotient is unbounded, the operation has to raise (C02 / C06 state which error)
        return None if out[0] != "ok" else "division by a p-box whose support contains zero returns a value"
    if out[0] != "ok":
        return f"well-formed operands raise {out[2]}"
    L, R = out[1], out[2]
    why = pbx.wf_problem(L, R, 200)
    if why:
        return "ill-formed result: " + why
    refL, refR = random_set(op, d, X, Y, exact=False)
    n = 200
    if d in "po":
        why = pbx.arrays_close(L, refL, 64, 1e-300) or pbx.arrays_close(R, refR, 64, 1e-300)
        return (f"differs from the random-set bounds (step k with step {'k' if d == 'p' else 'n-1-k'}): " + why) if why else None
    # independence: step k inside the k-th block of n of the n*n sorted combinations
    tol = lambda v: 64 * math.ulp(max(abs(v), 1e-300))
    for k in range(n):
        lo_blk, hi_blk = refL[k * n], refL[k * n + n - 1]
        if not (lo_blk - tol(lo_blk) <= L[k] <= hi_blk + tol(hi_blk)):
            return f"left bound of step {k} = {L[k]!r} outside its block [{lo_blk!r}, {hi_blk!r}] of the n*n combinations"
        lo_blk, hi_blk = refR[k * n], refR[k * n + n - 1]
        if not (lo_blk - tol(lo_blk) <= R[k] <= hi_blk + tol(hi_blk)):
            return f"right bound of step {k} = {R[k]!r} outside its block [{lo_blk!r}, {hi_blk!r}] of the n*n combinations"
    return None


def body(chk):
    pbx.patch_fast_moments()
    pr = chk.do_proofs(extra=["Corr/CorrPbox.vo"])
    kc = kernel_cases(chk, chk.tier)
    valid = []
    for c in kc:
        try:
            valid.append((c, run_kernel(c)))
        except Exception as e:
            chk.report(f"kernel:{c[0]}", f"kernel function raises {type(e).__name__}: {e}", {"kind": "kernel", "case": c[:4]})
    chunks = []
    CH = 200
    for s in range(0, len(valid), CH):
        items = [f"({c[0]}, {c[1]}, {coq_pb(*c[2])}, {coq_pb(*c[3])}, {coq_pb(*o)})" for c, o in valid[s:s + CH]]
        chunks.append(("Definition cases : list kcase := " + coq_list(items).replace("; (K", ";\n (K") +
                       ".\nDefinition verdicts := map kcheck cases.\n", len(items)))
    ac = api_cases(chk, chk.tier)
    aouts = [run_api(c) for c in ac]
    # independence cases sort 40 000 values inside Coq: one case per file, the others four per file
    groups, cur = [], []
    for c, o in zip(ac, aouts):
        if c[1] == "i":
            groups.append([(c, o)])
        else:
            cur.append((c, o))
            if len(cur) == 4:
                groups.append(cur)
                cur = []
    if cur:
        groups.append(cur)
    ac = [c for g in groups for c, _ in g]
    aouts = [o for g in groups for _, o in g]
    for g in groups:
        items = [f"({c[0]}, {pbx.DEPS[c[1]]}, {coq_pb(*c[2])}, {coq_pb(*c[3])}, {coq_pout(o)})" for c, o in g]
        chunks.append(("Definition cases : list acase := " + coq_list(items) + ".\nDefinition verdicts := map acheck cases.\n", len(items)))
    exact, rounded, bad, log = vlib.run_coq_cases("C03", chunks, "From PUN Require Import Model.Interval Model.PboxArith Corr.CorrPbox.\n", jobs=14)
    chk.corr = {"kernel_cases": len(valid), "api_cases": len(ac), "bit_exact": exact, "rounded": rounded, "disagree": len(bad)}
    if log:
        chk.corr["log"] = log[-600:]
    for c, o in valid:
        chk.count(f"kernel-{c[0]}-{c[1]}", key=(c[0], c[1], c[4]))
        why = kernel_oracle(c, o)
        if why:
            chk.report(f"operation.{c[0]}:{c[1]}", why, {"kind": "oracle-kernel", "fn": c[0], "op": c[1], "X": c[2], "Y": c[3], "observed": o})
    for c, o in zip(ac, aouts):
        chk.count(f"api-{c[0]}-{c[1]}-{c[5] if isinstance(c[5], str) else ('bare' if c[5] else 'method')}", key=(c[0], c[1], c[4], c[5]))
        why = api_oracle(c, o)
        if why:
            chk.report(f"Pbox.{c[0]}:{c[1]}:{pbx.sign_of(*c[2])}:{pbx.sign_of(*c[3])}" + (":" + c[5] if isinstance(c[5], str) else ""), why,
                       {"kind": "oracle-api", "op": c[0], "dep": c[1], "bare_operator": c[5], "X": c[2], "Y": c[3]})
    chk.sample({"fn": kc[0][0], "op": kc[0][1], "X": kc[0][2], "Y": kc[0][3], "impl": valid[0][1]})
    chk.sample({"api": ac[0][0], "dep": ac[0][1], "kinds": ac[0][4], "X_left_head": ac[0][2][0][:3], "impl_left_head": aouts[0][1][:3] if aouts[0][0] == "ok" else aouts[0]})
    if bad:
        allc = [("kernel", c, o) for c, o in valid] + [("api", c, o) for c, o in zip(ac, aouts)]
        for i in bad[:3]:
            lvl, c, o = allc[i]
            why = kernel_oracle(c, o) if lvl == "kernel" else api_oracle(c, o)
            chk.report(f"correspondence:{lvl}:{c[0]}:{c[1]}", why or "model and implementation disagree",
                       {"kind": "correspondence", "level": lvl, "case": [c[0], c[1], c[2], c[3]], "coq_log": log[-400:]}, found_input=bool(why))
    if not pr["ok"]:
        if not chk.violations:
            chk.report("proof", "proof obligation no longer checks", chk.proof_broken_replay(), found_input=False)
        else:
            chk.violations[0][0]["proof_broken"] = chk.proof_broken_replay()


RULE = ("kernel cases: perfect_op / opposite_op / independent_op on stub operands (n in 1..8, all sign kinds, ops + and x) compared "
        "bit-exactly with the model and, in exact rationals, with the sorted endpoints of the step-wise interval combinations; "
        "API cases: Staircase operands at 200 steps through add/sub/mul/div(dependency in p,o,i) and bare operators inside `with dependency(d)`, "
        "compared with the model in Coq and with the random-set reference (block membership for 'i'); the numpy-function route (np.add/subtract/multiply/divide, second operand a Staircase or a Leaf) and the UncertainNumber operators (p-box / Distribution constructs) under p, o, i are decided the same way. distinct key = (function/op, dependency, operand kinds, n, bare)")
TB = ["hand-written Model/Pbox.v + Model/PboxArith.v tied by in-Coq differential run",
      "condensation index = floor(i*(len-1)/(n-1)) on exact integers (numpy computes it in floats; validated by the run)",
      "Staircase moments use the ECDF fallback in the harness process (LP disabled for speed)"]

if __name__ == "__main__":
    chk = vlib.main_wrapper("C03", body)
    sys.exit(chk.finish(rule=RULE, trusted_base=TB))
