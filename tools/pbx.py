"""p-box helpers shared by the C02.. checks: generators, stubs, reference formulas, Coq rendering"""
import math
import operator
import os
import sys
from fractions import Fraction

sys.path.insert(0, os.path.dirname(os.path.abspath(__file__)))
import vlib
from vlib import flist

vlib.setup_impl_path()
import numpy as np

PYOPS = {"Add": operator.add, "Sub": operator.sub, "Mul": operator.mul, "Div": operator.truediv}
DEPS = {"f": "DF", "p": "DP", "o": "DO", "i": "DI"}


class Stub:
    """light operand for the kernel functions of pba/operation.py (any number of steps)"""

    def __init__(self, left, right):
        self.left = np.array(left, dtype=float)
        self.right = np.array(right, dtype=float)
        self.steps = len(self.left)


def patch_fast_moments():
    """array-level runs: make the LP moment estimator fail fast so Staircase() uses its ECDF fallback"""
    from pyuncertainnumber.pba import pbox_abc

    def boom(*a, **k):
        raise RuntimeError("LP disabled by the verification harness")
    if getattr(pbox_abc.variance_bounds_via_lp, "__name__", "") != "boom":
        _ORIG["lp"] = pbox_abc.variance_bounds_via_lp
    pbox_abc.variance_bounds_via_lp = boom


_ORIG = {}


class real_moments:
    """with pbx.real_moments(): ... runs the library's own moment pipeline (LP first) even after patch_fast_moments()"""

    def __enter__(self):
        from pyuncertainnumber.pba import pbox_abc
        self.cur = pbox_abc.variance_bounds_via_lp
        if "lp" in _ORIG:
            pbox_abc.variance_bounds_via_lp = _ORIG["lp"]

    def __exit__(self, *a):
        from pyuncertainnumber.pba import pbox_abc
        pbox_abc.variance_bounds_via_lp = self.cur
        return False


def dyadic(rng, lo, hi, bits=6):
    """a short dyadic rational in [lo, hi] (exact in binary64 and cheap as a Fraction)"""
    s = 2 ** bits
    return rng.randint(int(math.ceil(lo * s)), int(math.floor(hi * s))) / s


def gen_bounds(rng, n, kind, scale=4.0, dy=True):
    """(left, right) of a well-formed p-box with n steps.
    kind: pos | neg | straddle | zero_lo (touches 0 from above) | zero_hi | precise | interval | steps | mixed"""
    def val():
        return dyadic(rng, 0.0, scale) if dy else rng.uniform(0.0, scale)
    if kind == "interval":
        a, b = sorted([val(), val()])
        L, R = [a] * n, [b] * n
    elif kind == "precise":
        L = sorted(val() for _ in range(n))
        R = list(L)
    elif kind == "steps":   # few distinct values, as from a DS structure
        k = rng.randint(1, min(4, n))
        vals = sorted(val() for _ in range(k))
        L = sorted(rng.choice(vals) for _ in range(n))
        w = [val() / 2 for _ in range(k)]
        R = sorted(x + rng.choice(w) for x in L)
        R = [max(r, l) for l, r in zip(L, R)]
    else:
        L = sorted(val() for _ in range(n))
        W = [val() / 2 for _ in range(n)]
        R = sorted(l + w for l, w in zip(L, W))
        R = [max(r, l) for l, r in zip(L, R)]
    if kind.startswith("touch") and n >= 2:
        # partially degenerate: the bounds coincide at some but not all steps
        mode = kind.split("_")[1] if "_" in kind else rng.choice(["bottom", "top", "both", "prefix", "suffix"])
        m = rng.randint(1, max(1, n // 3))
        if mode in ("bottom", "both"):
            R[0] = L[0]
        if mode in ("top", "both"):
            L[-1] = R[-1]
        if mode == "prefix":
            for j in range(m):
                R[j] = L[j]
        if mode == "suffix":
            for j in range(n - m, n):
                L[j] = R[j]
    shift = 0.0
    base = kind if kind in ("pos", "neg", "straddle", "zero_lo", "zero_hi") else rng.choice(["pos", "neg", "straddle", "pos"])
    if base == "pos":
        shift = (dyadic(rng, 0.125, 2.0) - L[0])
    elif base == "neg":
        shift = -(dyadic(rng, 0.125, 2.0)) - R[-1]
    elif base == "straddle":
        mid = (L[0] + R[-1]) / 2
        if R[-1] == L[0]:
            return gen_bounds(rng, n, "pos", scale, dy)
        shift = -(math.floor(mid * 64) / 64)
        if not (L[0] + shift < 0 < R[-1] + shift):
            shift = -((L[0] + R[-1]) / 2)
    elif base == "zero_lo":
        shift = -L[0]
    elif base == "zero_hi":
        shift = -R[-1]
    L = [x + shift for x in L]
    R = [x + shift for x in R]
    return L, R


KINDS = ["pos", "neg", "straddle", "zero_lo", "zero_hi", "precise", "interval", "steps", "touch"]
TOUCH = ["touch_bottom", "touch_top", "touch_both", "touch_prefix", "touch_suffix"]


def sign_of(L, R):
    if L[0] > 0:
        return "pos"
    if R[-1] < 0:
        return "neg"
    if L[0] >= 0:
        return "nonneg"
    if R[-1] <= 0:
        return "nonpos"
    return "straddle"


def coq_pb(L, R):
    return f"({flist(L)}, {flist(R)})"


def coq_pout(out):
    if out[0] == "ok":
        return f"POk {flist(out[1])} {flist(out[2])}"
    if out[0] == "skip":
        return "PSkip"
    return f"PExc {out[1]}"


EXC_CODE = {"ZeroDivisionError": 0, "AssertionError": 1, "ValueError": 2, "TypeError": 3, "UnboundLocalError": 4,
            "IndexError": 5, "Exception": 6}


def exc_code(e):
    name = type(e).__name__
    if name == "Exception":
        msg = str(e)
        if "increasing" in msg:
            return 6
        if "Imposition" in msg:
            return 7
    return EXC_CODE.get(name, 9)


# ---------------------------------------------------------------------------
# independent reference formulas (exact when given Fractions)
# ---------------------------------------------------------------------------
def ref_frechet(op, XL, XR, YL, YR):
    """Frank-Nelsen-Sklar bounds for an operation nondecreasing in both arguments"""
    n = len(XL)
    L = [max(op(XL[j], YL[i - j]) for j in range(i + 1)) for i in range(n)]
    R = [min(op(XR[j], YR[n - 1 + i - j]) for j in range(i, n)) for i in range(n)]
    return sorted(L), sorted(R)


def ref_neg(L, R):
    return [-x for x in reversed(R)], [-x for x in reversed(L)]


def ref_recip(L, R):
    return [1 / x for x in reversed(R)], [1 / x for x in reversed(L)]


def iv_op(op, a, b):
    """exact interval combination (corner hull) of two steps a=(lo,hi), b=(lo,hi)"""
    cs = [op(a[0], b[0]), op(a[0], b[1]), op(a[1], b[0]), op(a[1], b[1])]
    return min(cs), max(cs)


def fr(xs):
    return [Fraction(float(x)) for x in xs]


def close_fr(x, ref, ulps=16, abs_tol=0.0):
    """float x against an exact (Fraction or float) reference"""
    x = float(x)
    r = float(ref)
    if math.isnan(x) or math.isinf(x) or math.isinf(r):
        return x == r
    return abs(Fraction(x) - Fraction(ref)) <= Fraction(ulps * math.ulp(max(abs(r), abs(x), 5e-324)) + abs_tol)


def arrays_close(got, ref, ulps=16, abs_tol=0.0):
    if len(got) != len(ref):
        return f"length {len(got)} != {len(ref)}"
    for k, (g, r) in enumerate(zip(got, ref)):
        if not close_fr(g, r, ulps, abs_tol):
            return f"index {k}: got {float(g)!r}, reference {float(r)!r}"
    return None


def wf_problem(L, R, steps=None):
    """well-formedness of bound arrays (None if fine)"""
    L = np.asarray(L, dtype=float)
    R = np.asarray(R, dtype=float)
    if steps is not None and (len(L) != steps or len(R) != steps):
        return f"lengths {len(L)},{len(R)} != {steps}"
    if np.isnan(L).any() or np.isnan(R).any():
        return "NaN in bounds"
    if (np.diff(L) < 0).any() or (np.diff(R) < 0).any():
        return "bounds not non-decreasing"
    if (L > R).any():
        k = int(np.argmax(L > R))
        return f"left above right at step {k}: {L[k]!r} > {R[k]!r}"
    return None


def touch_public(obj):
    """read every public data attribute / property of an object (no method calls): reading a value must not change any later answer.
    Returns the names read."""
    names = []
    for n in sorted(set(dir(type(obj))) | set(getattr(obj, "__dict__", {}))):
        if n.startswith("_"):
            continue
        cls_attr = getattr(type(obj), n, None)
        if cls_attr is not None and callable(cls_attr) and not isinstance(cls_attr, property):
            continue
        try:
            getattr(obj, n)
            names.append(n)
        except Exception:
            pass
    return names


_OBJ = {}


def staircase_of(X):
    """the Staircase built from the bounds X = (left, right); the SAME python object X gives the SAME Staircase object again, so that cases
    sharing their operand lists also share the operand objects (an operation that changes its operand shows in the later cases)"""
    from pyuncertainnumber.pba.pbox_abc import Staircase
    k = id(X)
    if k not in _OBJ or _OBJ[k][0] is not X:
        _OBJ[k] = (X, Staircase(np.array(X[0]), np.array(X[1])))
    return _OBJ[k][1]
