#!/bin/sh
# usage: tools/run_coqchk.sh   -- re-checks every Props module with the independent checker coqchk (not one of the registered checks:
# it takes about a minute per module).  Works on a scratch copy of the compiled files; writes /verif/coqchk_report.txt.
# Proofs/KS.v (three lemmas closed by the `interval` tactic: large reflexive computations that coqchk re-evaluates without the
# bytecode VM) does not finish within two hours under coqchk, so C17 is re-checked with that one file admitted (-admit): those lemmas
# are checked by coqc's kernel only.
set -e
cd /verif && /venv/bin/python tools/setup.py >/dev/null 2>&1
S=$(mktemp -d /tmp/cchk.XXXXXX); mkdir -p $S/out
rsync -a --include='*/' --include='*.vo' --exclude='*' /verif/coq/ $S/
cd $S
for n in 01 02 03 04 05 06 07 08 09 10 11 12 13 14 15 16 18 19 20; do echo $n; done | xargs -P 8 -I{} sh -c 'timeout 7200 coqchk -silent -o -R . PUN PUN.Props.C{} > out/C{}.txt 2>&1; echo "rc=$?" >> out/C{}.txt'
timeout 7200 coqchk -silent -o -admit PUN.Proofs.KS -R . PUN PUN.Props.C17 > out/C17.txt 2>&1; echo "rc=$?" >> out/C17.txt
{
  echo "coqchk (Coq 8.16.1) over the compiled development, one run per Props module; $(date -u +%Y-%m-%dT%H:%MZ); /verif commit $(git -C /verif rev-parse --short HEAD)"
  echo "C17 was run with -admit PUN.Proofs.KS (see the header of tools/run_coqchk.sh)"
  echo
  for f in out/C*.txt; do echo "$(basename $f .txt): $(tail -1 $f); type-in-type / unsafe fixpoints / assumed positivity: $(grep -c '<none>' $f) of 3 reported <none>"; done
  echo
  echo "union of the axioms reported (primitive integers / floats and their specifications are Coq's own; the logical ones are named in DESIGN.md 10.3):"
  cat out/C*.txt | grep -E '^ +Coq\.' | sed 's/^ *//' | sort -u
} > /verif/coqchk_report.txt
rm -rf $S
tail -5 /verif/coqchk_report.txt
