#!/venv/bin/python
"""C15 - UncertainNumber arithmetic equals construct arithmetic; units obey unit algebra."""
import math
import operator
import os
import sys
import warnings

sys.path.insert(0, os.path.dirname(os.path.abspath(__file__)))
import vlib
import pbx
from vlib import coq_list

vlib.setup_impl_path()
warnings.filterwarnings("ignore")
import numpy as np

BASIS = ["meter", "second", "kilogram"]
UNITS = {"m": (1, 0, 0), "s": (0, 1, 0), "kg": (0, 0, 1), "": (0, 0, 0), "m/s": (1, -1, 0), "kg*m/s**2": (1, -2, 1)}
OPS = {"add": operator.add, "sub": operator.sub, "mul": operator.mul, "div": operator.truediv}
COQ_OP = {"add": "UAdd", "sub": "USub", "mul": "UMul", "div": "UDiv", "neg": "UNeg"}
ESSENCES = ["interval", "distribution", "pbox", "dss"]
N = 200


def make(ess, rng, sign="pos"):
    """an uncertain number of the given essence whose support is positive / negative / straddles zero (interval, dss only)"""
    from pyuncertainnumber.characterisation.uncertainNumber import UncertainNumber as UN
    if ess == "interval":
        a = rng.choice([0.5, 1.0, 1.25, 2.0, 3.0])
        w = rng.choice([0.0, 0.5, 1.0, 2.5])
        lo, hi = a, a + w
        if sign == "neg":
            lo, hi = -hi, -lo
        if sign == "straddle":
            lo, hi = -a, a + w
        return UN(essence="interval", intervals=[lo, hi])
    if ess == "distribution":
        fam = rng.choice(["uniform", "gaussian"])
        if fam == "uniform":
            a = rng.choice([1.0, 2.0, 4.0])
            pars = [a, a + rng.choice([1.0, 3.0])]
        else:
            pars = [rng.choice([5.0, 8.0]), rng.choice([0.25, 0.5])]
        return UN(essence="distribution", distribution_parameters=[fam, pars])
    if ess == "pbox":
        a = rng.choice([1.0, 2.0, 4.0])
        return UN(essence="pbox", distribution_parameters=["uniform", [[a, a + 0.5], [a + 1.0, a + 2.0]]])
    if ess == "dss":
        k = rng.randint(2, 4)
        ivs, x = [], rng.choice([0.5, 1.0, 2.0])
        for _ in range(k):
            w = rng.choice([0.5, 1.0, 2.0])
            ivs.append([x, x + w])
            x += rng.choice([0.25, 0.5, 1.0])
        if sign == "neg":
            ivs = [[-b, -a] for a, b in ivs]
        if sign == "straddle":
            ivs = [[a - 2.0, b - 2.0] for a, b in ivs]
        m = [1.0 / k] * k if k != 3 else [0.25, 0.5, 0.25]
        from pyuncertainnumber.pba.intervals.number import Interval
        return UN(essence="dempster_shafer", intervals=Interval([a for a, _ in ivs], [b for _, b in ivs]), masses=m)
    raise ValueError(ess)


def bounds(c):
    """(left, right) arrays of any construct"""
    from pyuncertainnumber.pba.pbox_abc import convert_pbox
    from pyuncertainnumber.pba.intervals.number import Interval
    if isinstance(c, Interval):
        return [float(c.lo)], [float(c.hi)]
    p = convert_pbox(c)
    return [float(x) for x in p.left], [float(x) for x in p.right]


def unit_vec(q):
    u = dict(q.to_root_units().units._units) if hasattr(q, "to_root_units") else {}
    if set(u) - {"meter", "second", "kilogram"}:
        return None
    # root units of kg is kilogram in pint's default system (gram is the reference: check)
    return tuple(int(round(u.get(b, 0))) if abs(u.get(b, 0) - round(u.get(b, 0))) < 1e-12 else u.get(b, 0) for b in BASIS)


def run(f):
    try:
        r = f()
        if type(r).__name__ != "UncertainNumber":
            return ("exc", f"returned a bare {type(r).__name__}")
        L, R = bounds(r.construct)
        return ("ok", type(r.construct).__name__, L, R, unit_vec(r.physical_quantity), str(r.physical_quantity.units))
    except Exception as e:
        return ("exc", type(e).__name__ + ": " + str(e)[:80])


def num_ref(opn, L, R, c, reflected):
    """elementwise reference for  U op c  (or  c op U)  from the bounds of U's construct: floats, one rounding per element"""
    n = len(L)
    if opn == "add":
        return [x + c for x in L], [x + c for x in R]
    if opn == "sub":
        if not reflected:
            return [x - c for x in L], [x - c for x in R]
        return [c - x for x in reversed(R)], [c - x for x in reversed(L)]
    if opn == "mul":
        if c >= 0:
            return [x * c for x in L], [x * c for x in R]
        return [x * c for x in reversed(R)], [x * c for x in reversed(L)]
    if opn == "div":
        if not reflected:
            if c == 0:
                return None
            if c > 0:
                return [x / c for x in L], [x / c for x in R]
            return [x / c for x in reversed(R)], [x / c for x in reversed(L)]
        if L[0] <= 0 <= R[-1]:
            return None
        if c >= 0:        # c / x decreasing in x
            return [c / x for x in reversed(R)], [c / x for x in reversed(L)]
        return [c / x for x in L], [c / x for x in R]
    if opn == "neg":
        return [-x for x in reversed(R)], [-x for x in reversed(L)]
    raise ValueError(opn)


def same(got, ref, tol=1e-9):
    """got, ref: arrays of possibly different discretisation: compare as step functions when lengths agree, else by range"""
    if len(got) == len(ref):
        for g, r in zip(got, ref):
            if not (g == r or abs(g - r) <= tol * max(1.0, abs(g), abs(r))):
                return False
        return True
    return abs(got[0] - ref[0]) <= tol * max(1, abs(ref[0])) and abs(got[-1] - ref[-1]) <= tol * max(1, abs(ref[-1]))


def vec(v):
    return "[" + "; ".join(f"({x})%Z" for x in v) + "]"


def body(chk):
    from pyuncertainnumber.pba.pbox_abc import convert_pbox
    pbx.patch_fast_moments()
    pr = chk.do_proofs()
    rng = chk.rng
    items, flat = [], []
    unit_names = list(UNITS)

    def set_unit(u, name):
        u.unit = name if name else None
        return u

    def unit_case(opn, a, b, out, site, replay):
        """a, b: unit vector or None (plain number)"""
        ca = f"(OUN {vec(a)})" if a is not None else "ONum"
        cb = f"(OUN {vec(b)})" if b is not None else "ONum"
        if out[0] == "ok":
            o = f"(XOk {vec(out[4])})" if out[4] is not None and all(isinstance(x, int) for x in out[4]) else "XOther"
        else:
            o = "XDim" if out[1].startswith("DimensionalityError") else "XOther"
        cop = COQ_OP.get(opn) or f"(UPow ({opn[1]})%Z)"
        items.append(f"({cop}, {ca}, {cb}, {o})")
        flat.append((site, replay, out))

    # ---- U op c and c op U ----
    numbers = [2, 3.0, 0.5, -2, -0.5, 1, 0, 10]
    n_rounds = 1 if chk.tier == "quick" else 6
    for rd in range(n_rounds):
        for ess in ESSENCES:
            for uname in unit_names:
                signs = ["pos"] + (["neg", "straddle"] if ess in ("interval", "dss") else [])
                for sign in signs:
                    U = set_unit(make(ess, rng, sign), uname)
                    L, R = bounds(U.construct)
                    uv = UNITS[uname]
                    for opn, op in OPS.items():
                        for c in (numbers if rd == 0 and uname in ("m", "") else [rng.choice(numbers)]):
                            for reflected in (False, True):
                                text = f"{c} {opn} U" if reflected else f"U {opn} {c}"
                                site = f"UN:{ess}:{opn}:{'number-left' if reflected else 'number-right'}"
                                out = run((lambda: op(c, U)) if reflected else (lambda: op(U, c)))
                                chk.count(f"num-{ess}-{opn}-{'r' if reflected else 'f'}-{sign}", key=(ess, uname, sign, opn, c, reflected, tuple(L), tuple(R)))
                                replay = {"kind": "oracle", "essence": ess, "unit": uname, "expr": text, "U_left": L, "U_right": R, "observed": out[:2] + out[4:] if out[0] == "ok" else out}
                                ref = num_ref(opn, L, R, float(c), reflected)
                                if ref is None:
                                    if out[0] == "ok" and not (math.isinf(out[2][0]) or math.isinf(out[3][-1]) or math.isnan(out[2][0])):
                                        chk.report(site + ":zero", f"{text} (division by a quantity containing zero) returned a finite result", replay)
                                    continue
                                if out[0] != "ok":
                                    chk.report(site, f"{text} with U of essence {ess} fails: {out[1]}", replay)
                                    continue
                                # the same operation on the underlying construct
                                try:
                                    dl, dr = bounds(op(c, U.construct) if reflected else op(U.construct, c))
                                    if not (same(out[2], dl) and same(out[3], dr)):
                                        chk.report(site + ":construct", f"{text}: construct differs from the same operation on the underlying construct", replay)
                                except Exception as e:
                                    chk.report(site + ":construct", f"{text}: UncertainNumber gives a result but the construct raises {type(e).__name__}", replay)
                                if not (same(out[2], ref[0]) and same(out[3], ref[1])):
                                    chk.report(site + ":mirror", f"{text}: construct [{out[2][0]:.6g}..{out[3][-1]:.6g}] is not the mathematically correct image "
                                               f"[{ref[0][0]:.6g}..{ref[1][-1]:.6g}] of U = [{L[0]:.6g}..{R[-1]:.6g}]", replay)
                                unit_case(opn, None if reflected else uv, uv if reflected else None, out, site + ":unit", replay)
                    # unary minus and powers
                    out = run(lambda: -U)
                    chk.count(f"neg-{ess}", key=(ess, uname, sign, tuple(L), tuple(R)))
                    replay = {"kind": "oracle", "essence": ess, "unit": uname, "expr": "-U", "U_left": L, "U_right": R, "observed": out[:2] + out[4:] if out[0] == "ok" else out}
                    if out[0] != "ok":
                        chk.report(f"UN:{ess}:neg", f"-U with U of essence {ess} fails: {out[1]}", replay)
                    else:
                        ref = num_ref("neg", L, R, 0.0, False)
                        if not (same(out[2], ref[0]) and same(out[3], ref[1])):
                            chk.report(f"UN:{ess}:neg:mirror", f"-U: construct [{out[2][0]:.6g}..{out[3][-1]:.6g}] is not the mirror image of U = [{L[0]:.6g}..{R[-1]:.6g}]", replay)
                        unit_case("neg", uv, None, out, f"UN:{ess}:neg:unit", replay)
                    for k in ([2, 3] if sign == "pos" else [2]):
                        out = run(lambda: U ** k)
                        chk.count(f"pow-{ess}-{k}", key=(ess, uname, sign, k, tuple(L), tuple(R)))
                        replay = {"kind": "oracle", "essence": ess, "unit": uname, "expr": f"U ** {k}", "U_left": L, "U_right": R, "observed": out[:2] + out[4:] if out[0] == "ok" else out}
                        if out[0] != "ok":
                            chk.report(f"UN:{ess}:pow", f"U ** {k} with U of essence {ess} fails: {out[1]}", replay)
                            continue
                        lo, hi = L[0], R[-1]
                        cs = [lo ** k, hi ** k] + ([0.0] if lo <= 0 <= hi and k % 2 == 0 else [])
                        if not (abs(out[2][0] - min(cs)) <= 1e-9 * max(1, abs(min(cs))) and abs(out[3][-1] - max(cs)) <= 1e-9 * max(1, abs(max(cs)))):
                            chk.report(f"UN:{ess}:pow:range", f"U ** {k}: range [{out[2][0]:.6g}, {out[3][-1]:.6g}] is not the image [{min(cs):.6g}, {max(cs):.6g}] of U's range [{lo:.6g}, {hi:.6g}]", replay)
                        items.append(f"(UPow ({k})%Z, (OUN {vec(uv)}), ONum, " + (f"(XOk {vec(out[4])})" if out[4] is not None else "XOther") + ")")
                        flat.append((f"UN:{ess}:pow:unit", replay, out))

    # ---- U op V ----
    pairs = [(a, b) for a in ESSENCES for b in ESSENCES]
    n_pair_rounds = 1 if chk.tier == "quick" else 5
    for rd in range(n_pair_rounds):
        for ea, eb in pairs:
            for opn, op in OPS.items():
                combos = [("m", "m"), ("m", "s"), ("", "kg"), ("m", ""), ("s", ""), ("", ""), ("m/s", "s"), ("kg*m/s**2", "m"), ("kg", "kg")]
                for ua, ub in (combos if rd == 0 else [(rng.choice(unit_names), rng.choice(unit_names)) for _ in range(3)]):
                    A = set_unit(make(ea, rng), ua)
                    B = set_unit(make(eb, rng), ub)
                    AL, AR = bounds(A.construct)
                    BL, BR = bounds(B.construct)
                    out = run(lambda: op(A, B))
                    site = f"UN:{ea}-{eb}:{opn}"
                    chk.count(f"pair-{ea}-{eb}-{opn}", key=(ea, eb, ua, ub, opn, tuple(AL), tuple(AR), tuple(BL), tuple(BR)))
                    replay = {"kind": "oracle", "essences": [ea, eb], "units": [ua, ub], "op": opn, "A": [AL[0], AR[-1]], "B": [BL[0], BR[-1]],
                              "observed": out[:2] + out[4:] if out[0] == "ok" else out}
                    compatible = opn in ("mul", "div") or UNITS[ua] == UNITS[ub]
                    if not compatible:
                        if out[0] == "ok":
                            chk.report(site + ":dimension", f"adding quantities of incompatible dimension ({ua or 'dimensionless'} and {ub or 'dimensionless'}) is not an error", replay)
                    elif out[0] != "ok":
                        chk.report(site, f"U {opn} V fails: {out[1]}", replay)
                    else:
                        try:
                            dl, dr = bounds(op(convert_pbox(A.construct), convert_pbox(B.construct)))
                            if not (same(out[2], dl) and same(out[3], dr)):
                                chk.report(site + ":construct", "construct differs from the same operation on the underlying constructs", replay)
                        except Exception as e:
                            chk.report(site + ":construct", f"UncertainNumber gives a result but the constructs raise {type(e).__name__}", replay)
                        # independent: the range is the interval image of the ranges (no dependence assumption)
                        flo, fhi = pbx.iv_op({"add": operator.add, "sub": operator.sub, "mul": operator.mul, "div": operator.truediv}[opn], (AL[0], AR[-1]), (BL[0], BR[-1]))
                        if not (abs(out[2][0] - flo) <= 1e-9 * max(1, abs(flo)) and abs(out[3][-1] - fhi) <= 1e-9 * max(1, abs(fhi))):
                            chk.report(site + ":range", f"range [{out[2][0]:.6g}, {out[3][-1]:.6g}] is not the interval image [{flo:.6g}, {fhi:.6g}] of the operand ranges", replay)
                    unit_case(opn, UNITS[ua], UNITS[ub], out, site + ":unit", replay)

    # ---- histories: operands that are themselves results of earlier arithmetic ----
    derivs = [("-U", lambda U, V, K: -U), ("U*V", lambda U, V, K: U * V), ("K/V", lambda U, V, K: K / V), ("U**2", lambda U, V, K: U ** 2),
              ("U+U2", lambda U, V, K: U + U), ("2*U", lambda U, V, K: 2 * U), ("1/V", lambda U, V, K: 1 / V), ("U-1", lambda U, V, K: U - 1),
              ("(U*V)/V", lambda U, V, K: (U * V) / V)]
    n_hist = 1 if chk.tier == "quick" else 4
    for rd in range(n_hist):
        for ess in ESSENCES:
            U, V, K = set_unit(make(ess, rng), "m"), set_unit(make(rng.choice(ESSENCES), rng), "s"), set_unit(make(ess, rng), "kg")
            pool = []
            for name, f in derivs:
                try:
                    d = f(U, V, K)
                    pool.append((name, d, unit_vec(d.physical_quantity)))
                except Exception as e:
                    chk.report(f"UN:{ess}:history", f"{name} fails: {type(e).__name__}: {str(e)[:60]}", {"kind": "oracle", "essence": ess, "expr": name})
            for name, d, dv in pool:
                if dv is None:
                    continue
                L, R = bounds(d.construct)
                for opn, op in OPS.items():
                    c = rng.choice([1, 2, 0.5, -2])
                    for reflected in (False, True):
                        text = f"{c} {opn} ({name})" if reflected else f"({name}) {opn} {c}"
                        site = f"UN:{ess}:history:{opn}:{'number-left' if reflected else 'number-right'}"
                        out = run((lambda: op(c, d)) if reflected else (lambda: op(d, c)))
                        chk.count(f"hist-num-{ess}-{opn}", key=(ess, name, opn, c, reflected, tuple(L), tuple(R)))
                        replay = {"kind": "oracle", "essence": ess, "expr": text, "units": "U[m] V[s] K[kg]", "operand_unit": dv, "observed": out[:2] + out[4:] if out[0] == "ok" else out}
                        ref = num_ref(opn, L, R, float(c), reflected)
                        if ref is None:
                            continue
                        if out[0] != "ok":
                            chk.report(site, f"{text} fails: {out[1]}", replay)
                            continue
                        if not (same(out[2], ref[0]) and same(out[3], ref[1])):
                            chk.report(site + ":mirror", f"{text}: construct is not the mathematically correct image of the operand", replay)
                        unit_case(opn, None if reflected else dv, dv if reflected else None, out, site + ":unit", replay)
                # unary minus and a power of a derived operand: the unit of the operand is kept / raised, the construct mirrored
                out = run(lambda: -d)
                chk.count(f"hist-neg-{ess}", key=(ess, name, "neg", tuple(L), tuple(R)))
                replay = {"kind": "oracle", "essence": ess, "expr": f"-({name})", "units": "U[m] V[s] K[kg]", "operand_unit": dv, "observed": out[:2] + out[4:] if out[0] == "ok" else out}
                if out[0] != "ok":
                    chk.report(f"UN:{ess}:history:neg", f"-({name}) fails: {out[1]}", replay)
                else:
                    ref = num_ref("neg", L, R, 0.0, False)
                    if not (same(out[2], ref[0]) and same(out[3], ref[1])):
                        chk.report(f"UN:{ess}:history:neg:mirror", f"-({name}): construct is not the mirror image of the operand", replay)
                    unit_case("neg", dv, None, out, f"UN:{ess}:history:neg:unit", replay)
                    # X + (-X) must be dimensionally compatible
                    out2 = run(lambda: d + (-d))
                    if out2[0] != "ok" and out2[1].startswith("DimensionalityError"):
                        chk.report(f"UN:{ess}:history:neg:unit", f"({name}) + (-({name})) is rejected as dimensionally incompatible: {out2[1][:80]}", replay)
                if L[0] > 0:
                    out = run(lambda: d ** 2)
                    chk.count(f"hist-pow-{ess}", key=(ess, name, "pow2", tuple(L), tuple(R)))
                    replay = {"kind": "oracle", "essence": ess, "expr": f"({name}) ** 2", "units": "U[m] V[s] K[kg]", "operand_unit": dv, "observed": out[:2] + out[4:] if out[0] == "ok" else out}
                    if out[0] == "ok":
                        items.append(f"(UPow (2)%Z, (OUN {vec(dv)}), ONum, " + (f"(XOk {vec(out[4])})" if out[4] is not None and all(isinstance(x, int) for x in out[4]) else "XOther") + ")")
                        flat.append((f"UN:{ess}:history:pow:unit", replay, out))
                    else:
                        chk.report(f"UN:{ess}:history:pow", f"({name}) ** 2 fails: {out[1]}", replay)
                # derived with derived
                for name2, d2, dv2 in rng.sample(pool, min(3, len(pool))):
                    if dv2 is None:
                        continue
                    for opn, op in OPS.items():
                        out = run(lambda: op(d, d2))
                        text = f"({name}) {opn} ({name2})"
                        chk.count(f"hist-pair-{ess}-{opn}", key=(ess, name, name2, opn, tuple(L), tuple(R)))
                        replay = {"kind": "oracle", "essence": ess, "expr": text, "units": "U[m] V[s] K[kg]", "operand_units": [dv, dv2], "observed": out[:2] + out[4:] if out[0] == "ok" else out}
                        compatible = opn in ("mul", "div") or dv == dv2
                        if not compatible and out[0] == "ok":
                            chk.report(f"UN:{ess}:history:{opn}:dimension", f"{text}: adding quantities of incompatible dimension is not an error", replay)
                        elif compatible and out[0] != "ok" and not (opn == "div" and bounds(d2.construct)[0][0] <= 0 <= bounds(d2.construct)[1][-1]):
                            chk.report(f"UN:{ess}:history:{opn}", f"{text} fails: {out[1]}", replay)
                        unit_case(opn, dv, dv2, out, f"UN:{ess}:history:{opn}:unit", replay)

    # ---- the unit of an operand is changed AFTER the operand has been used (and printed): every later result follows the unit the
    # operand carries at the time of the operation
    for ess in ESSENCES:
        U, V, W = set_unit(make(ess, rng), "m"), set_unit(make(rng.choice(ESSENCES), rng), "s"), set_unit(make(ess, rng), "m")
        first = run(lambda: U * V)
        repr(U)
        unit_case("mul", UNITS["m"], UNITS["s"], first, f"UN:{ess}:unit-change:before", {"kind": "oracle", "essence": ess, "expr": "U[m] * V[s]"})
        for new_unit in ("kg", "s"):
            set_unit(U, new_unit)
            uv = UNITS[new_unit]
            seq = [("mul", lambda: U * V, uv, UNITS["s"]), ("div", lambda: U / V, uv, UNITS["s"]), ("neg", lambda: -U, uv, None),
                   ("mul", lambda: 3 * U, None, uv), ("div", lambda: 6 / U, None, uv), ("sub", lambda: 2 - U, None, uv)]
            for opn, f, a, b in seq:
                out = run(f)
                chk.count(f"unit-change-{ess}-{opn}", key=(ess, new_unit, opn, a, b))
                replay = {"kind": "oracle", "essence": ess, "history": f"U built with unit m, used in U * V and printed, then U.unit = '{new_unit}'", "op": opn,
                          "observed": out[:2] + out[4:] if out[0] == "ok" else out}
                if out[0] != "ok":
                    chk.report(f"UN:{ess}:unit-change:{opn}", f"{opn} after U.unit = '{new_unit}' fails: {out[1]}", replay)
                    continue
                unit_case(opn, a, b, out, f"UN:{ess}:unit-change:{opn}:unit", replay)
            # sums: compatible with V[s] exactly when U now carries s; never with W[m] any more
            o1, o2 = run(lambda: U + V), run(lambda: U + W)
            chk.count(f"unit-change-{ess}-add", key=(ess, new_unit, "add"))
            rep2 = {"kind": "oracle", "essence": ess, "history": f"U built with unit m, used, then U.unit = '{new_unit}'"}
            if new_unit == "s" and o1[0] != "ok":
                chk.report(f"UN:{ess}:unit-change:add", f"U[s] + V[s] is rejected after the unit of U was changed from m to s: {o1[1]}", rep2)
            if new_unit != "s" and o1[0] == "ok":
                chk.report(f"UN:{ess}:unit-change:add:dimension", f"U[{new_unit}] + V[s] is accepted", rep2)
            if o2[0] == "ok":
                chk.report(f"UN:{ess}:unit-change:add:dimension", f"U[{new_unit}] + W[m] is accepted after the unit of U was changed from m to {new_unit}", rep2)
    chunks = []
    CH = 400
    for s in range(0, len(items), CH):
        chunks.append(("Definition cases : list ucase := " + coq_list(items[s:s + CH]).replace("; (U", ";\n (U") +
                       ".\nDefinition verdicts := map ucheck cases.\n", len(items[s:s + CH])))
    exact, rounded, bad, log = vlib.run_coq_cases("C15", chunks, "From Coq Require Import ZArith.\nFrom PUN Require Import Model.Units Corr.CorrC15.\n", jobs=8, scope="Z_scope")
    chk.corr = {"cases": len(items), "agree": exact, "disagree": len(bad)}
    if log:
        chk.corr["log"] = log[-600:]
    chk.sample({"site": flat[0][0], "replay": flat[0][1]})
    chk.sample({"site": flat[len(flat) // 2][0], "replay": flat[len(flat) // 2][1]})
    seen = set()
    for i in bad:
        site, replay, out = flat[i]
        if site in seen:
            continue
        seen.add(site)
        got = out[5] if out[0] == "ok" else out[1]
        chk.report(site, f"unit of the result is '{got}', which is not what dimensional algebra gives", dict(replay, kind="correspondence+oracle"), found_input=True)
    if not pr["ok"]:
        if not chk.violations:
            chk.report("proof", "proof obligation no longer checks", chk.proof_broken_replay(), found_input=False)
        else:
            chk.violations[0][0]["proof_broken"] = chk.proof_broken_replay()


RULE = ("uncertain numbers of every essence (interval, distribution, p-box, Dempster-Shafer) with positive, negative and zero-straddling supports (interval, DS), "
        "units from {m, s, kg, dimensionless, m/s, kg*m/s**2}; every operator + - * / with plain numbers {2, 3.0, 0.5, -2, -0.5, 1, 0, 10} on both sides, "
        "unary minus, ** 2 and ** 3, all 16 essence pairs with compatible and incompatible units, and histories: the same operators applied to operands that are results of earlier arithmetic (-U, U*V, K/V, U**2, U+U, 2*U, 1/V, U-1, (U*V)/V). Construct compared with the same operation on the "
        "underlying construct(s) and with an independent elementwise mirror-image reference; the unit compared with the Coq unit-algebra model (exponent vectors). "
        "distinct key = (essence(s), unit(s), sign, operator, number, order, bounds of the operands)")
TB = ["pint (unit parsing, Quantity arithmetic) is a library: its result is read back as an exponent vector over (m, s, kg) via to_root_units",
      "construct-level arithmetic is the subject of C01/C02/C06: here only the equality with the UncertainNumber-level result and the mirror images are checked",
      "Model/Units.v is written by hand; it is tied to uncertainNumber.py by this correspondence only"]

if __name__ == "__main__":
    chk = vlib.main_wrapper("C15", body)
    sys.exit(chk.finish(rule=RULE, trusted_base=TB))
