#!/bin/sh
# usage: tools/sweep.sh "<ids>" "<seeds>" [tier]   -- runs checks over seeds, prints non-clean runs
ids=${1:-"C01 C02 C03 C06 C08 C11 C18"}; seeds=${2:-"1 2 3 4 5"}; tier=${3:-quick}
for id in $ids; do for s in $seeds; do
  out=$(VERIF_SEED=$s ./check $id $tier 2>&1); rc=$?
  if [ $rc -ne 0 ] || echo "$out" | grep -q VIOLATION; then echo "ALARM $id seed=$s rc=$rc"; echo "$out" | grep -v KNOWN | tail -4; else echo "ok $id seed=$s $(echo "$out" | tail -1 | sed 's/.*wall=/wall=/')"; fi
done; done
