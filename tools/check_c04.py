#!/venv/bin/python
"""C04 - every p-box value handed to the user is well formed."""
import concurrent.futures
import math
import os
import random
import sys
import warnings

sys.path.insert(0, os.path.dirname(os.path.abspath(__file__)))
import vlib
import pbx
from vlib import flist
from vlib import coq_list

vlib.setup_impl_path()
warnings.filterwarnings("ignore")
import numpy as np

NUMS = [2, -1.5, 0.5, 0, 3, -1, 0.25]
LEAVES = ["normal", "uniform", "lognormal", "exponential", "min_max", "mean_std", "min_max_mean", "min_mean", "pos_mean_std", "min_max_mean_std",
          "min_max_median", "mean_var", "interval", "dss", "ecdf", "staircase", "stack", "beta", "triang"]


# ---------------------------------------------------------------------------------------------------------------------
# expression trees (JSON-serialisable)
# ---------------------------------------------------------------------------------------------------------------------
def gen_leaf(rng):
    k = rng.choice(LEAVES)
    a = rng.choice([-3.0, 0.0, 1.5, 0.5, -0.5, 10.0])
    if k == "normal":
        return {"k": "leaf", "c": k, "args": [[a, a + rng.choice([0.5, 2.0])], rng.choice([0.5, 1.0, [1.0, 2.0]])]}
    if k == "uniform":
        return {"k": "leaf", "c": k, "args": [[a, a + 1.0], [a + 2.0, a + 4.0]]}
    if k == "lognormal":
        return {"k": "leaf", "c": k, "args": [[1.0, 2.0], [0.5, 0.6]]}
    if k == "exponential":
        return {"k": "leaf", "c": k, "args": [[1.0, rng.choice([1.0, 2.0])]]}
    if k == "beta":
        return {"k": "leaf", "c": k, "args": [[2.0, 3.0], [2.0, 4.0]]}
    if k == "triang":
        return {"k": "leaf", "c": "uniform", "args": [[a, a + 0.5], [a + 0.5, a + 1.0]]}
    if k == "min_max":
        return {"k": "leaf", "c": k, "args": [a, a + rng.choice([1.0, 4.0])]}
    if k == "mean_std":
        return {"k": "leaf", "c": k, "args": [a, rng.choice([0.5, 2.0])]}
    if k == "mean_var":
        return {"k": "leaf", "c": k, "args": [a, rng.choice([0.25, 4.0])]}
    if k == "min_max_mean":
        return {"k": "leaf", "c": k, "args": [a, a + 4.0, a + rng.choice([1.0, 2.0, 3.0])]}
    if k == "min_mean":
        return {"k": "leaf", "c": k, "args": [a, a + rng.choice([1.0, 2.0])]}
    if k == "pos_mean_std":
        return {"k": "leaf", "c": k, "args": [rng.choice([1.0, 3.0]), rng.choice([0.5, 1.0])]}
    if k == "min_max_mean_std":
        return {"k": "leaf", "c": k, "args": [a, a + 4.0, a + 2.0, rng.choice([0.5, 1.0])]}
    if k == "min_max_median":
        return {"k": "leaf", "c": k, "args": [a, a + 4.0, a + rng.choice([1.0, 2.5])]}
    if k == "interval":
        return {"k": "leaf", "c": k, "args": [a, a + rng.choice([0.0, 1.0, 4.0])]}
    if k == "dss":
        n = rng.randint(2, 5)
        ivs = []
        for _ in range(n):
            lo = a + pbx.dyadic(rng, -2, 2)
            ivs.append([lo, lo + pbx.dyadic(rng, 0, 3)])
        m = [rng.randint(1, 6) for _ in range(n)]
        return {"k": "leaf", "c": k, "args": [ivs, [x / sum(m) for x in m]]}
    if k == "ecdf":
        return {"k": "leaf", "c": k, "args": [rng.randint(0, 999), rng.choice([10, 30, 250]), a]}
    if k == "stack":
        n = rng.choice([2, 3, 7, 250])
        ivs = []
        for _ in range(n):
            lo = a + rng.uniform(-2, 2)
            ivs.append([lo, lo + rng.uniform(0, 3)])
        w = None if rng.random() < 0.5 else [rng.randint(1, 6) for _ in range(n)]
        return {"k": "leaf", "c": k, "args": [ivs, w]}
    kind = rng.choice(["pos", "neg", "straddle", "steps", "precise", "interval", "touch"] if "touch" in pbx.KINDS else ["pos", "neg", "straddle", "steps", "precise", "interval"])
    n = rng.choice([200, 200, 200, 50, 333, 1, 2])
    L, R = pbx.gen_bounds(rng, n, kind, scale=4.0, dy=True)
    return {"k": "leaf", "c": "staircase", "args": [L, R]}


def gen_tree(rng, d):
    if d == 0 or rng.random() < 0.12:
        return gen_leaf(rng)
    k = rng.choice(["bin"] * 6 + ["num"] * 3 + ["neg", "un", "env", "imp", "imp", "recip"])
    if k == "bin":
        return {"k": "bin", "op": rng.choice(["add", "sub", "mul", "div"]), "dep": rng.choice("fpoi"), "a": gen_tree(rng, d - 1), "b": gen_tree(rng, d - 1)}
    if k == "num":
        return {"k": "num", "op": rng.choice(["add", "sub", "rsub", "mul", "div", "rdiv", "radd", "rmul"]), "c": rng.choice(NUMS), "a": gen_tree(rng, d - 1)}
    if k in ("neg", "recip"):
        return {"k": k, "a": gen_tree(rng, d - 1)}
    if k == "un":
        return {"k": "un", "f": rng.choice(["exp", "sqrt", "log"]), "a": gen_tree(rng, d - 1)}
    a = gen_tree(rng, d - 1)
    if k == "imp" and rng.random() < 0.6:
        # operands that agree at some probability levels and conflict at others: a shifted or rescaled copy, a narrow precise distribution
        r = rng.random()
        if r < 0.4:
            return {"k": k, "a": a, "b": {"k": "num", "op": "add", "c": rng.choice([0.25, 0.5, -0.25, 1.0]), "a": a}}
        if r < 0.7:
            return {"k": k, "a": a, "b": {"k": "num", "op": "mul", "c": rng.choice([0.5, 2, 1.25]), "a": a}}
        return {"k": k, "a": a, "b": {"k": "leaf", "c": "normal", "args": [rng.choice([0.0, 1.5, 5.0]), rng.choice([0.1, 0.5])]}}
    return {"k": k, "a": a, "b": gen_tree(rng, d - 1)}


FIXED_TREES = [
    {"k": "imp", "a": {"k": "leaf", "c": "uniform", "args": [0.0, 10.0]}, "b": {"k": "leaf", "c": "normal", "args": [5.0, 0.1]}},
    {"k": "imp", "a": {"k": "leaf", "c": "uniform", "args": [0.0, 10.0]}, "b": {"k": "leaf", "c": "normal", "args": [[4.5, 5.5], 0.1]}},
    {"k": "imp", "a": {"k": "leaf", "c": "normal", "args": [[0.0, 1.0], 1.0]}, "b": {"k": "leaf", "c": "interval", "args": [0.5, 3.0]}},
    {"k": "imp", "a": {"k": "leaf", "c": "min_max", "args": [0.0, 4.0]}, "b": {"k": "leaf", "c": "normal", "args": [2.0, 0.5]}},
    {"k": "env", "a": {"k": "leaf", "c": "uniform", "args": [0.0, 10.0]}, "b": {"k": "leaf", "c": "normal", "args": [5.0, 0.1]}},
    {"k": "imp", "a": {"k": "leaf", "c": "interval", "args": [0.0, 1.0]}, "b": {"k": "leaf", "c": "interval", "args": [2.0, 3.0]}},
]


def text(t):
    k = t["k"]
    if k == "leaf":
        return t["c"]
    if k == "bin":
        return f"({text(t['a'])} {t['op']}/{t['dep']} {text(t['b'])})"
    if k == "num":
        return f"({text(t['a'])} {t['op']} {t['c']})"
    if k in ("neg", "recip"):
        return f"{k}({text(t['a'])})"
    if k == "un":
        return f"{t['f']}({text(t['a'])})"
    return f"{k}({text(t['a'])}, {text(t['b'])})"


def depth(t):
    return 0 if t["k"] == "leaf" else 1 + max(depth(t[x]) for x in ("a", "b") if x in t)


# ---------------------------------------------------------------------------------------------------------------------
# evaluation in the implementation (worker process)
# ---------------------------------------------------------------------------------------------------------------------
def build_leaf(t):
    from pyuncertainnumber import pba
    from pyuncertainnumber.pba.pbox_abc import Staircase, convert_pbox
    c, a = t["c"], t["args"]
    if c in ("normal", "uniform", "lognormal", "beta"):
        return getattr(pba, c)(*a)
    if c == "exponential":
        return pba.exponential(*a)
    if c in ("min_max", "mean_std", "mean_var", "min_max_mean", "min_mean", "pos_mean_std", "min_max_mean_std", "min_max_median"):
        return getattr(pba, c)(*a)
    if c == "interval":
        return convert_pbox(pba.I(a[0], a[1]))
    if c == "dss":
        ivs = a[0]
        return convert_pbox(pba.DempsterShafer(intervals=pba.I([x[0] for x in ivs], [x[1] for x in ivs]), masses=a[1]))
    if c == "ecdf":
        r = np.random.default_rng(a[0])
        kb = pba.KS_bounds(r.normal(a[2], 1.0, a[1]), 0.05, display=False)
        return pba.pbox_from_ecdf_bundle(*kb) if isinstance(kb, tuple) else kb
    if c == "stack":
        ivs = a[0]
        return pba.stacking(pba.I([x[0] for x in ivs], [x[1] for x in ivs]), weights=None if a[1] is None else np.array(a[1], float), display=False)
    if c == "staircase":
        return Staircase(np.array(a[0], float), np.array(a[1], float))
    raise ValueError(c)


class NodeError(Exception):
    def __init__(self, exc, node):
        self.exc, self.node = exc, node


def observe(p):
    """everything the property talks about, read from the returned object"""
    from pyuncertainnumber.pba.pbox_abc import Pbox
    if not isinstance(p, Pbox):
        return {"type": type(p).__name__}
    o = {"type": type(p).__name__, "L": [float(x) for x in p.left], "R": [float(x) for x in p.right]}
    try:
        o["lo"], o["hi"] = float(p.lo), float(p.hi)
        if getattr(p, "support", None) is not None:     # the support AS REPORTED (an attribute of its own, set when the p-box is built)
            o["support"] = [float(np.min(p.support.lo)), float(np.max(p.support.hi))]
    except Exception as e:
        o["range_exc"] = repr(e)[:80]
    try:
        o["mean"] = [float(p.mean.lo), float(p.mean.hi)]
        o["var"] = [float(p.var.lo), float(p.var.hi)]
    except Exception as e:
        o["moments_exc"] = repr(e)[:80]
    o["method"] = (getattr(p, "_moments_meta", None) or {}).get("method")
    return o


def ev(t, rec, path):
    """returns the implementation object; rec collects an observation per node"""
    k = t["k"]
    try:
        if k == "leaf":
            r = build_leaf(t)
        elif k == "bin":
            a = ev(t["a"], rec, path + "a")
            b = ev(t["b"], rec, path + "b")
            r = getattr(a, t["op"])(b, dependency=t["dep"])
        elif k == "num":
            a = ev(t["a"], rec, path + "a")
            c = t["c"]
            r = {"add": lambda: a + c, "radd": lambda: c + a, "sub": lambda: a - c, "rsub": lambda: c - a, "mul": lambda: a * c, "rmul": lambda: c * a,
                 "div": lambda: a / c, "rdiv": lambda: c / a}[t["op"]]()
        elif k == "neg":
            r = -ev(t["a"], rec, path + "a")
        elif k == "recip":
            r = ev(t["a"], rec, path + "a").reciprocal()
        elif k == "un":
            a = ev(t["a"], rec, path + "a")
            f = getattr(np, t["f"])
            with np.errstate(all="ignore"):
                rec[path + ":table"] = [[float(x) for x in a.left], [float(x) for x in f(a.left)], [float(x) for x in a.right], [float(x) for x in f(a.right)]]
            r = getattr(a, t["f"])()
        elif k == "env":
            a = ev(t["a"], rec, path + "a")
            b = ev(t["b"], rec, path + "b")
            r = a.env(b)
        elif k == "imp":
            a = ev(t["a"], rec, path + "a")
            b = ev(t["b"], rec, path + "b")
            r = a.imp(b)
        else:
            raise ValueError(k)
    except NodeError:
        raise
    except Exception as e:
        rec[path] = {"exc": type(e).__name__, "code": pbx.exc_code(e), "msg": str(e)[:100]}
        raise NodeError(e, path)
    rec[path] = observe(r)
    return r


def work(job):
    idx, tree, fast = job
    vlib.setup_impl_path()
    warnings.filterwarnings("ignore")
    if fast:
        pbx.patch_fast_moments()
    rec = {}
    try:
        ev(tree, rec, "r")
    except NodeError:
        pass
    except Exception as e:          # harness problem
        rec["harness"] = repr(e)[:200]
    return idx, rec


# ---------------------------------------------------------------------------------------------------------------------
# oracle
# ---------------------------------------------------------------------------------------------------------------------
def wf_problems(o, steps):
    out = []
    if "L" not in o:
        return [("type", f"returned a {o.get('type')} instead of a p-box")]
    L, R = np.array(o["L"]), np.array(o["R"])
    if len(L) != steps or len(R) != steps:
        out.append(("steps", f"has {len(L)}/{len(R)} steps instead of the configured {steps}"))
    if np.isnan(L).any() or np.isnan(R).any():
        out.append(("nan", "bounds contain NaN"))
        return out
    if (np.diff(L) < 0).any() or (np.diff(R) < 0).any():
        out.append(("monotone", "a bounding quantile array decreases"))
    if len(L) == len(R) and (L > R).any():
        k = int(np.argmax(L - R))
        out.append(("crossing", f"left bound above right bound at {int((L > R).sum())} steps (by up to {float((L - R).max()):.3g} at step {k})"))
    if "range_exc" in o:
        out.append(("range", "support cannot be read: " + o["range_exc"]))
    elif not (o["lo"] == L[0] and o["hi"] == R[-1]):
        out.append(("range", f"reported support [{o['lo']}, {o['hi']}] is not [first left, last right] = [{L[0]}, {R[-1]}]"))
    elif "support" in o and not (o["support"][0] == L[0] and o["support"][1] == R[-1]):
        out.append(("range", f"reported support attribute {o['support']} is not [first left, last right] = [{L[0]}, {R[-1]}]"))
    if "moments_exc" in o:
        out.append(("moments", "moments cannot be read: " + o["moments_exc"]))
        return out
    m, v = o["mean"], o["var"]
    if 666 in m or 666 in v:
        out.append(("sentinel", f"mean {m} / variance {v} is the placeholder 666"))
        return out
    lo, hi = float(L[0]), float(R[-1])
    w = hi - lo
    if math.isfinite(w):
        tol = 1e-6 * max(1.0, abs(lo), abs(hi), w)
        if any(math.isnan(x) for x in m + v):
            out.append(("moments", f"mean {m} / variance {v} is NaN on a bounded support"))
        else:
            if not (lo - tol <= m[0] <= m[1] <= hi + tol):
                out.append(("mean", f"mean bounds [{m[0]:.6g}, {m[1]:.6g}] not inside the support [{lo:.6g}, {hi:.6g}]"))
            if not (-tol <= v[0] <= v[1] <= w * w / 4 * (1 + 1e-6) + tol):
                out.append(("var", f"variance bounds [{v[0]:.6g}, {v[1]:.6g}] not inside [0, {w * w / 4:.6g}] (support width {w:.6g})"))
    return out


# ---------------------------------------------------------------------------------------------------------------------
# Coq terms
# ---------------------------------------------------------------------------------------------------------------------
NUMOP = {"add": "KAdd", "radd": "KAdd", "sub": "KSub", "rsub": "KRSub", "mul": "KMul", "rmul": "KMul", "div": "KDiv", "rdiv": "KRDiv"}
BOP = {"add": "Add", "sub": "Sub", "mul": "Mul", "div": "Div"}
DEP = {"f": "DF", "p": "DP", "o": "DO", "i": "DI"}


def coq_expr(t, rec, path):
    """the tree as a pexpr FN; leaves carry the arrays the implementation's constructors returned. None if a leaf failed."""
    k = t["k"]
    if k == "leaf":
        o = rec.get(path)
        if not o or "L" not in o:
            return None
        return f"(ELeaf FN {flist(o['L'])} {flist(o['R'])})"
    subs = {x: coq_expr(t[x], rec, path + x) for x in ("a", "b") if x in t}
    if any(v is None for v in subs.values()):
        return None
    if k == "bin":
        return f"(EBin FN {BOP[t['op']]} {DEP[t['dep']]} {subs['a']} {subs['b']})"
    if k == "num":
        return f"(ENum FN {NUMOP[t['op']]} {subs['a']} ({vlib.hexf(float(t['c']))}))"
    if k == "neg":
        return f"(ENeg FN {subs['a']})"
    if k == "recip":
        return f"(ERecip FN {subs['a']})"
    if k == "un":
        tb = rec.get(path + ":table")
        if tb is None:
            return None
        pairs = {}
        for x, y in list(zip(tb[0], tb[1])) + list(zip(tb[2], tb[3])):
            pairs.setdefault(x, y)
        tbl = "[" + "; ".join(f"({vlib.hexf(x)}, {vlib.hexf(y)})" for x, y in pairs.items()) + "]"
        return f"(EMap FN (lookup {tbl}) {'dom_pos' if t['f'] == 'log' else 'dom_all'} {subs['a']})"
    return f"({'EEnv' if k == 'env' else 'EImp'} FN {subs['a']} {subs['b']})"


def count_di(t):
    if t["k"] == "leaf":
        return 0
    return (1 if t["k"] == "bin" and t["dep"] == "i" else 0) + sum(count_di(t[x]) for x in ("a", "b") if x in t)


def first_failure(t, rec, path):
    """path of the node that raised (post-order, left to right), or None"""
    for x in ("a", "b"):
        if x in t:
            f = first_failure(t[x], rec, path + x)
            if f:
                return f
    o = rec.get(path)
    return path if (o is not None and "exc" in o) else None


def node_at(t, path):
    for ch in path[1:]:
        t = t[ch]
    return t


def real_pipeline(f):
    with pbx.real_moments():
        return f()


def extras(chk, steps):
    """public operations outside the modelled grammar: checked by the well-formedness oracle only (a raise is an acceptable outcome)"""
    import pyuncertainnumber.pba as pba
    from pyuncertainnumber.pba.pbox_abc import Staircase
    pbx.patch_fast_moments()
    rng = chk.rng
    mk = lambda X: Staircase(np.array(X[0]), np.array(X[1]))
    for rep in range(2 if chk.tier == "quick" else 12):
        for kind in ("pos", "neg", "straddle", "interval", "precise", "steps", "zero_lo", "zero_hi", "precise_zero_lo", "precise_zero_hi"):
            if kind.startswith("precise_"):     # a precise distribution whose support starts / ends at zero exactly (as uniform(0, b) does)
                X = pbx.gen_bounds(rng, steps, "precise", dy=False)
                sh = X[0][0] if kind.endswith("lo") else X[1][-1]
                X = ([v - sh for v in X[0]], [v - sh for v in X[1]])
            else:
                X = pbx.gen_bounds(rng, steps, kind, dy=False)
            Yp = pbx.gen_bounds(rng, steps, "pos", dy=False)
            x, yp = mk(X), mk(([0.2 + v / 4 for v in Yp[0]], [0.3 + v / 4 for v in Yp[1]]))
            Xp = pbx.gen_bounds(rng, steps, "pos", dy=False)
            xp = mk(([0.5 + v for v in Xp[0]], [0.5 + v for v in Xp[1]]))
            ops = [("sin", lambda: x.sin()), ("cos", lambda: x.cos()), ("tanh", lambda: x.tanh()), ("np.sin", lambda: np.sin(x)), ("np.cos", lambda: np.cos(x)), ("np.tanh", lambda: np.tanh(x)),
                   ("rpow", lambda: 2 ** x), ("rpow-frac", lambda: 0.5 ** x),
                   ("condensation", lambda: x.condensation(rng.choice([3, 5, 20, 50]))), ("truncate", lambda: x.truncate(float(X[0][steps // 4]), float(X[1][3 * steps // 4]))),
                   ("min", lambda: x.min(yp)), ("max", lambda: x.max(yp)),
                   ("outer_approximate", lambda: pba.stacking(x.outer_discretisation(rng.choice([10, 40]))))]
            for d in "fpoi":
                ops.append((f"pow-{d}", (lambda d=d: xp.pow(yp, dependency=d))))
            # powers with a real exponent (positive, zero, negative, fractional) on every kind of support, zero at an endpoint included
            for c in (2, 3, 0.5, 0, -1, -2, -0.5):
                ops.append((f"pow-number({c})", (lambda c=c: real_pipeline(lambda: x ** c) if "zero" in kind else x ** c)))
            # results whose exact image overflows a double at one step / at several steps (a value with an infinite bound has no moments: the
            # operation has to raise), next to the same operations just below the overflow threshold
            for tag, top in (("1", 709.79), ("N", rng.choice([709.9, 712.0, 730.0]))):     # one step / several steps beyond the threshold
                ramp = [700 + (top - 700) * k / (steps - 1) for k in range(steps)]
                big = mk((ramp, ramp)) if kind in ("precise", "pos", "precise_zero_lo") else mk(([700.0] * steps, ramp))
                ops += [(f"overflow{tag}-exp", lambda big=big: real_pipeline(lambda: big.exp())), (f"overflow{tag}-np.exp", lambda big=big: real_pipeline(lambda: np.exp(big))),
                        (f"overflow{tag}-mul", lambda big=big: real_pipeline(lambda: (big - 699.0) * 1.7e307)), (f"overflow{tag}-pow", lambda big=big: real_pipeline(lambda: big ** 108)),
                        (f"near-overflow{tag}-exp", lambda big=big: real_pipeline(lambda: (big - 5.0).exp()))]
            # the aggregation functions with a p-box listed first, and a mixture
            import pyuncertainnumber as pun
            ops += [("envelope()", lambda: pun.envelope(x, yp)), ("envelope()-3", lambda: pun.envelope(xp, x, yp)), ("imposition()", lambda: pun.imposition(xp, mk(([v - 0.25 for v in Xp[0]], [1.0 + v for v in Xp[1]])))),
                    ("mixture", lambda: pba.mixture(x, yp) if hasattr(pba, "mixture") else x)]
            handed_out = [("x", x, X), ("yp", yp, None), ("xp", xp, None)]
            for name, f in ops:
                chk.count("extra-" + name, key=("extra", name, kind, rep))
                try:
                    with warnings.catch_warnings():
                        warnings.simplefilter("ignore")
                        r = f()
                except Exception:
                    continue
                o = observe(r)
                if "L" not in o:
                    continue            # some of these return other kinds (e.g. an interval for a degenerate case)
                for k2, why in wf_problems(o, steps):
                    chk.report(f"extra:{name}:{k2}", f"{name} on a {kind} p-box returns an ill-formed p-box: {why}",
                               {"kind": "oracle", "operation": name, "X": X, "observed": {k: v for k, v in o.items() if k not in ("L", "R")}, "left_head": o["L"][:5], "right_tail": o["R"][-5:]})
                handed_out.append((name, r, None))
            # every p-box handed out so far - operands and results - is still well formed after all these operations
            for name, obj, _ in handed_out:
                o = observe(obj)
                if "L" not in o:
                    continue
                chk.count("handed-out-recheck", nontrivial=False)
                for k2, why in wf_problems(o, steps):
                    chk.report(f"extra:handed-out:{k2}", f"the p-box '{name}' ({kind} case), looked at again after the later operations {[n for n, _ in ops]}, is ill formed: {why}",
                               {"kind": "oracle", "object": name, "X": X, "observed": {k: v for k, v in o.items() if k not in ("L", "R")}, "left_head": o["L"][:5], "right_tail": o["R"][-5:]})
                    break


def body(chk):
    from pyuncertainnumber.pba.params import Params
    pr = chk.do_proofs()
    rng = chk.rng
    steps = Params.steps
    n_trees = 48 if chk.tier == "quick" else 480
    max_depth = 3 if chk.tier == "quick" else 4
    jobs = []
    for i in range(n_trees):
        d = rng.choice([1, 2, 2, 3, 3, max_depth, max_depth])
        tree = FIXED_TREES[i] if i < len(FIXED_TREES) else gen_tree(random.Random(rng.getrandbits(48)), d)
        jobs.append((i, tree, i % 2 == 1))          # odd trees: LP estimator disabled, exercising the fallback estimator
    with concurrent.futures.ProcessPoolExecutor(max_workers=16) as ex:
        results = dict(ex.map(work, jobs, chunksize=2))

    # a deterministic probe of the constructor on bounds that cross at some steps only (finding O21)
    from pyuncertainnumber.pba.pbox_abc import Staircase
    Lc = np.linspace(0.0, 4.0, steps)
    Rc = Lc + 0.5
    a0, a1 = (3 * steps) // 10, (6 * steps) // 10
    Rc[a0:a1] = Rc[a0 - 1]              # right bound flat while the left bound keeps rising: they cross, then the right bound jumps back above
    chk.count("constructor-crossing", key="ctor-crossing")
    try:
        p = Staircase(Lc, np.array(Rc))
        probs = wf_problems(observe(p), steps)
        for kind, why in probs:
            chk.report("Staircase:partial-crossing:" + kind, "Staircase(left, right) with bounds that cross at some steps only is accepted: " + why,
                       {"kind": "oracle", "left": [float(x) for x in Lc], "right": [float(x) for x in Rc]})
    except Exception:
        pass

    extras(chk, steps)
    items, flat = [], []
    hist = {"ok": 0, "raised": 0, "modelled": 0, "oracle_only": 0}
    for i, tree, fast in jobs:
        rec = results[i]
        tx = text(tree)
        if "harness" in rec:
            chk.report("harness", "harness error: " + rec["harness"], {"kind": "harness", "tree": tree})
            continue
        # oracle on every value produced on the way
        for path, o in rec.items():
            if path.endswith(":table") or "exc" in o:
                continue
            sub = node_at(tree, path)
            chk.count(f"node-{sub['k']}-{sub.get('c') or sub.get('op') or sub.get('f') or ''}{'-' + sub['dep'] if 'dep' in sub else ''}",
                      key=(text(sub), tuple(o.get("L", [])[:3]), tuple(o.get("R", [])[-3:]), fast))
            for kind, why in wf_problems(o, steps):
                site = f"{sub['k']}:{sub.get('c') or sub.get('op') or sub.get('f') or ''}{':' + sub['dep'] if 'dep' in sub else ''}:{kind}"
                chk.report(site, f"{text(sub)} returns an ill-formed p-box: {why}" + (" [LP estimator disabled]" if fast else ""),
                           {"kind": "oracle", "tree": sub, "lp_disabled": fast, "observed": {k: v for k, v in o.items() if k not in ("L", "R")},
                            "left_head": o.get("L", [])[:5], "right_tail": o.get("R", [])[-5:]})
        root = rec.get("r")
        fail = first_failure(tree, rec, "r")
        hist["ok" if root is not None and "L" in root else "raised"] += 1
        # correspondence with the model: the root value (or the exception of the first failing node, when that node is modelled)
        if count_di(tree) > 3:
            hist["oracle_only"] += 1
            continue
        if fail is not None and node_at(tree, fail)["k"] == "leaf":
            hist["oracle_only"] += 1
            continue
        e = coq_expr(tree, rec, "r")
        if e is None:
            hist["oracle_only"] += 1
            continue
        if root is not None and "L" in root:
            out = ("ok", root["L"], root["R"])
        elif fail is not None:
            out = ("exc", rec[fail]["code"])
        else:
            hist["oracle_only"] += 1
            continue
        hist["modelled"] += 1
        items.append(f"({e}, {pbx.coq_pout(out)})")
        flat.append((tx, tree, out if out[0] == "exc" else ("ok",), rec.get(fail) if fail else None))

    chunks = []
    CH = 3
    for s in range(0, len(items), CH):
        chunks.append(("Definition cases : list ccase := " + coq_list(items[s:s + CH]) + ".\nDefinition verdicts := map ccheck cases.\n", len(items[s:s + CH])))
    exact, rounded, bad, log = vlib.run_coq_cases("C04", chunks, "From PUN Require Import Base.Num Model.Interval Model.PboxArith Model.PExpr Corr.CorrCommon Corr.CorrPbox Corr.CorrC04.\n", jobs=16, timeout=900)
    chk.corr = {"cases": len(items), "agree_exact": exact, "agree_rounded": rounded, "disagree": len(bad), "trees": hist}
    if log:
        chk.corr["log"] = log[-600:]
    if flat:
        chk.sample({"tree": flat[0][0], "impl": str(flat[0][2])[:80]})
        chk.sample({"tree": flat[len(flat) // 2][0], "impl": str(flat[len(flat) // 2][2])[:80]})
    for i in bad[:3]:
        tx, tree, out, failrec = flat[i]
        chk.report("correspondence:expression", f"model and implementation disagree on {tx}", {"kind": "correspondence", "tree": tree, "impl": out, "failing_node": failrec, "coq_log": log[-300:]}, found_input=True)
    if not pr["ok"]:
        if not chk.violations:
            chk.report("proof", "proof obligation no longer checks", chk.proof_broken_replay(), found_input=False)
        else:
            chk.violations[0][0]["proof_broken"] = chk.proof_broken_replay()


RULE = ("random expression trees (quick: depth <= 3, thorough: depth <= 4) over public constructors (parametric with interval parameters, the distribution-free family, "
        "interval, Dempster-Shafer, KS/ECDF bounds, stacking, Staircase(left, right) at 1, 2, 50, 200 and 333 steps) and + - * / under the dependencies f p o i, "
        "numbers on either side, negation, reciprocal, exp / sqrt / log, envelope, imposition. EVERY value produced on the way (not only the root) is examined: "
        "step count, NaN, monotone bounds, left <= right, reported support, mean inside the support, variance in [0, w^2/4], the 666 placeholder. Extras outside the grammar (oracle only): trigonometric maps, condensation, truncation, min / max, p-box and real-number powers (zero at an endpoint included, library moment pipeline), results overflowing at one / several steps, aggregation functions. Every second tree runs "
        "with the LP moment estimator disabled to exercise the fallback estimator. The root value (or the exception of the first failing node) is compared with the Coq "
        "expression evaluator run on binary64. distinct key = (expression text, first left values, last right values, estimator mode)")
TB = ["scipy's LP (variance_bounds_via_lp) is a library: its results are examined, not modelled; disabling it in half of the trees is done inside the harness process only",
      "constructor leaves (scipy ppf, KS bounds, stacking) enter the Coq evaluator as the arrays the implementation returned; their own laws are C08-C10, C17",
      "numpy exp / log / sqrt are recorded lookup tables in the Coq run and arbitrary nondecreasing functions in the theorem",
      "the zero-straddling Frechet product route is not modelled (model answers NotImpl: such trees are examined by the oracle only)",
      "hand model of pbox_abc.py validated by this differential run; theorems are over the reals (IEEE rounding gap)"]

if __name__ == "__main__":
    chk = vlib.main_wrapper("C04", body)
    sys.exit(chk.finish(rule=RULE, trusted_base=TB))
