"""Fail-closed translator: the arithmetic glue of pba/pbox_abc.py  ->  Gen/GenGlue.v

Translated (p-box operands; the number-operand and conversion guards at the top of add / mul are recognised and skipped):
    classic_frechet_pbox, vectorised_naive_frechet_pbox, nagative_frechet_pbox,
    frechet_pbox_mul, straddle_frechet_pbox, Staircase.balchprod          (mutually recursive: one Fixpoint on explicit fuel)
    Staircase.add, Staircase.sub, Staircase.mul, Staircase.div, and the operators __add__ __sub__ __mul__ __truediv__ (ambient dependency)

Python values of p-box type become terms of type `res pb` (an exception is a value); every sub-expression that can raise is bound
with rbind in evaluation order.  The recognised constructs and the model primitive each is mapped to:

    -E                         pneg E                       E.lo / E.hi                p_lo_ E / p_hi_ E   (left[0] / right[-1])
    E + n, E - n, E * n, n * E pnum nadd / nsub / nmul E n  E.straddles_zero()         straddles_zero E
    1 / E                      prdiv 1 E                    a <= 0, b or c, b ^ c      nleb a 0, ||, xorb
    A if c else B              if c then A else B           imposition(A, B)           pimp A B     (two p-boxes: A.imp(B))
    K(x, y, OP) for a kernel K of operation.py              K N OP (fst x) (snd x) (fst y) (snd y)
    Staircase(left=l, right=r) mk l r                       l.sort()                   let l := nsort l
    match dependency: case "f" | "p" | "o" | "i"            match d with DF | DP | DO | DI   (a default case must raise)
    raise ...                  Raise OtherExn               warnings.warn(...), imports, docstrings: skipped
Anything else aborts.
"""
import ast


class Unsupported(Exception):
    pass


KERNELS = {"frechet_op", "perfect_op", "opposite_op", "independent_op", "new_vectorised_naive_frechet_op"}
KERNEL_COQ = {"new_vectorised_naive_frechet_op": "naive_frechet_op"}
OPS = {"operator.add": "(nadd N)", "operator.mul": "(nmul N)"}
DEPC = {"f": "DF", "p": "DP", "o": "DO", "i": "DI"}
SKIP_GUARDS = {
    "if isinstance(other, Number):\n    return pbox_number_ops(self, other, operator.add)",
    "if isinstance(other, Number):\n    return pbox_number_ops(self, other, operator.mul)",
    "if is_un(other):\n    other = convert_pbox(other)",
    "if self.straddles_zero():\n    warnings.warn('Division of a pbox straddling zero needs attention', UserWarning)",
}


class Fn:
    """translation of one function body; `calls` maps a python callee to the Gallina head it is called through"""

    def __init__(self, name, params, calls):
        self.name, self.calls = name, calls
        self.kind = {p: "pb" for p in params}       # name -> 'pb' | 'num' | 'arr' | 'dep' | 'op'
        self.fresh = 0

    def tmp(self):
        self.fresh += 1
        return f"t{self.fresh}"

    def g(self, name):
        """Gallina name of a python name: parameters keep theirs, local names get a prefix (left / right / ... are Coq constants)"""
        return name if name in ("x", "y", "self", "other", "dependency", "op", "ambient") else "v_" + name

    # ---- pure expressions -------------------------------------------------------------------------------------
    def num(self, e, binds):
        if isinstance(e, ast.Constant) and type(e.value) is int:
            return f"(nofZ N ({e.value})%Z)"
        if isinstance(e, ast.Name) and self.kind.get(e.id) == "num":
            return self.g(e.id)
        if isinstance(e, ast.Attribute) and e.attr in ("lo", "hi"):
            return f"({'p_lo_' if e.attr == 'lo' else 'p_hi_'} N {self.pb(e.value, binds)})"
        if isinstance(e, ast.BinOp) and isinstance(e.op, ast.Mult) and self.is_num(e.left) and self.is_num(e.right):
            return f"(nmul N {self.num(e.left, binds)} {self.num(e.right, binds)})"
        raise Unsupported(f"{self.name}: number expression {ast.unparse(e)}")

    def is_num(self, e):
        if isinstance(e, ast.Constant) and type(e.value) in (int, float):
            return True
        if isinstance(e, ast.Name):
            return self.kind.get(e.id) == "num"
        if isinstance(e, ast.Attribute) and e.attr in ("lo", "hi"):
            return True
        if isinstance(e, ast.BinOp) and isinstance(e.op, ast.Mult):
            return self.is_num(e.left) and self.is_num(e.right)
        return False

    def cond(self, e, binds):
        if isinstance(e, ast.BoolOp) and isinstance(e.op, (ast.Or, ast.And)):
            op = " || " if isinstance(e.op, ast.Or) else " && "
            return "(" + op.join(self.cond(v, binds) for v in e.values) + ")"
        if isinstance(e, ast.BinOp) and isinstance(e.op, ast.BitXor):
            return f"(xorb {self.cond(e.left, binds)} {self.cond(e.right, binds)})"
        if isinstance(e, ast.Compare) and len(e.ops) == 1 and ast.unparse(e.comparators[0]) == "0":
            a = self.num(e.left, binds)
            if isinstance(e.ops[0], ast.LtE):
                return f"(nleb N {a} nzero)"
            if isinstance(e.ops[0], ast.Lt):
                return f"(nltb N {a} nzero)"
        if isinstance(e, ast.Compare) and len(e.ops) == 1 and isinstance(e.ops[0], ast.Eq) and isinstance(e.left, ast.Name) \
                and self.kind.get(e.left.id) == "dep" and isinstance(e.comparators[0], ast.Constant) and e.comparators[0].value in DEPC:
            return f"(dep_eqb {self.g(e.left.id)} {DEPC[e.comparators[0].value]})"
        if isinstance(e, ast.Call) and isinstance(e.func, ast.Attribute) and e.func.attr == "straddles_zero" and not e.args:
            return f"(straddles_zero N {self.pb(e.func.value, binds)})"
        raise Unsupported(f"{self.name}: condition {ast.unparse(e)}")

    # ---- p-box expressions: return an atom; anything that can raise is appended to binds as (name, res-term) ----
    def pb(self, e, binds):
        if isinstance(e, ast.Name) and self.kind.get(e.id) == "pb":
            return self.g(e.id)
        t = self.res(e, binds)
        v = self.tmp()
        binds.append((v, t))
        return v

    def res(self, e, binds):
        """a term of type res pb for a p-box valued expression (sub-expressions are bound into binds first)"""
        if isinstance(e, ast.Name) and self.kind.get(e.id) == "pb":
            return f"(Ok {self.g(e.id)})"
        if isinstance(e, ast.UnaryOp) and isinstance(e.op, ast.USub):
            return f"(pneg N steps p_lo p_hi {self.pb(e.operand, binds)})"
        if isinstance(e, ast.BinOp):
            l, r = e.left, e.right
            if isinstance(e.op, ast.Div) and ast.unparse(l) == "1":
                return f"(prdiv N steps p_lo p_hi (nofZ N 1%Z) {self.pb(r, binds)})"
            opn = {ast.Add: "nadd", ast.Sub: "nsub", ast.Mult: "nmul"}.get(type(e.op))
            if opn and self.is_num(r) and not self.is_num(l):
                a = self.pb(l, binds)
                return f"(pnum N steps p_lo p_hi ({opn} N) {a} {self.num(r, binds)})"
            if opn in ("nadd", "nmul") and self.is_num(l) and not self.is_num(r):          # n + E, n * E: the reflected operator, commutative
                a = self.pb(r, binds)
                return f"(pnum N steps p_lo p_hi ({opn} N) {a} {self.num(l, binds)})"
        if isinstance(e, ast.IfExp):
            c = self.cond(e.test, binds)
            return f"(if {c} then {self.res_closed(e.body)} else {self.res_closed(e.orelse)})"
        if isinstance(e, ast.Call):
            f = ast.unparse(e.func)
            if f == "Staircase" and not e.args and {k.arg for k in e.keywords} == {"left", "right"}:
                kw = {k.arg: k.value for k in e.keywords}
                return f"(mk {self.arr(kw['left'])} {self.arr(kw['right'])})"
            if f == "imposition" and len(e.args) == 2 and not e.keywords:
                a, b = self.pb(e.args[0], binds), self.pb(e.args[1], binds)
                return f"(pimp N steps p_lo p_hi {a} {b})"
            if isinstance(e.func, ast.Attribute) and e.func.attr in self.calls and e.func.attr in ("balchprod", "add", "sub", "mul", "div"):
                recv = self.pb(e.func.value, binds)
                args = [self.pb(a, binds) if not (isinstance(a, ast.Name) and self.kind.get(a.id) == "dep") else self.g(a.id) for a in e.args]
                for k in e.keywords:
                    if k.arg == "dependency" and isinstance(k.value, ast.Name) and self.kind.get(k.value.id) == "dep":
                        args.append(self.g(k.value.id))
                    elif k.arg == "dependency" and ast.unparse(k.value) == "get_current_dependency()" and self.kind.get("ambient") == "dep":
                        args.append("ambient")          # the ambient setting read from the context variable (C16)
                    else:
                        raise Unsupported(f"{self.name}: keyword {ast.unparse(k)}")
                return f"({self.calls[e.func.attr]} {recv} {' '.join(args)})"
            if f in self.calls:
                args = []
                for a in e.args:
                    s = ast.unparse(a)
                    if s in OPS:
                        args.append(OPS[s])
                    elif isinstance(a, ast.Name) and self.kind.get(a.id) == "op":
                        args.append(self.g(a.id))
                    else:
                        args.append(self.pb(a, binds))
                return f"({self.calls[f]} {' '.join(args)})"
        raise Unsupported(f"{self.name}: p-box expression {ast.unparse(e)[:90]}")

    def res_closed(self, e):
        binds = []
        t = self.res(e, binds)
        return wrap(binds, t)

    def arr(self, e):
        if isinstance(e, ast.Name) and self.kind.get(e.id) == "arr":
            return self.g(e.id)
        raise Unsupported(f"{self.name}: array expression {ast.unparse(e)}")

    def kernel(self, e):
        if isinstance(e, ast.Call) and ast.unparse(e.func) in KERNELS and len(e.args) == 3 and not e.keywords:
            x, y, op = e.args
            ops = OPS.get(ast.unparse(op)) or (self.g(op.id) if isinstance(op, ast.Name) and self.kind.get(op.id) == "op" else None)
            if ops and isinstance(x, ast.Name) and isinstance(y, ast.Name) and self.kind.get(x.id) == self.kind.get(y.id) == "pb":
                k = ast.unparse(e.func)
                return f"{KERNEL_COQ.get(k, k)} N {ops} (fst {self.g(x.id)}) (snd {self.g(x.id)}) (fst {self.g(y.id)}) (snd {self.g(y.id)})"
        raise Unsupported(f"{self.name}: kernel call {ast.unparse(e)[:90]}")

    # ---- statements ---------------------------------------------------------------------------------------------
    def block(self, stmts):
        """term of type res pb for a statement list every path of which returns or raises"""
        if not stmts:
            raise Unsupported(f"{self.name}: a path falls off the end of the function")
        st, rest = stmts[0], stmts[1:]
        src = ast.unparse(st)
        if (isinstance(st, ast.Expr) and isinstance(st.value, ast.Constant)) or isinstance(st, (ast.Import, ast.ImportFrom)) or src.startswith("warnings.warn("):
            return self.block(rest)
        if src in SKIP_GUARDS:
            return self.block(rest)
        if isinstance(st, ast.Return):
            binds = []
            t = self.res(st.value, binds)
            return wrap(binds, t)
        if isinstance(st, ast.Raise):
            return "(Raise OtherExn)"
        if isinstance(st, ast.Assign) and len(st.targets) == 1:
            tgt = st.targets[0]
            if isinstance(tgt, ast.Tuple) and len(tgt.elts) == 2 and all(isinstance(x, ast.Name) for x in tgt.elts):
                a, b = tgt.elts[0].id, tgt.elts[1].id
                if isinstance(st.value, ast.Tuple) and len(st.value.elts) == 2:           # b1, b2 = E1, E2
                    binds = []
                    t1 = self.res(st.value.elts[0], binds)
                    v1 = self.tmp()
                    binds.append((v1, t1))
                    t2 = self.res(st.value.elts[1], binds)
                    self.kind[a] = self.kind[b] = "pb"
                    binds.append((self.g(b), t2))
                    return wrap(binds, f"(let {self.g(a)} := {v1} in {self.block(rest)})", final_is_term=True)
                k = self.kernel(st.value)
                self.kind[a] = self.kind[b] = "arr"
                return f"(let '({self.g(a)}, {self.g(b)}) := {k} in\n    {self.block(rest)})"
            if isinstance(tgt, ast.Name):
                if self.is_num(st.value):
                    binds = []
                    n = self.num(st.value, binds)
                    self.kind[tgt.id] = "num"
                    return wrap(binds, f"(let {self.g(tgt.id)} := {n} in\n    {self.block(rest)})", final_is_term=True)
                binds = []
                t = self.res(st.value, binds)
                self.kind[tgt.id] = "pb"
                binds.append((self.g(tgt.id), t))
                return wrap(binds, self.block(rest), final_is_term=True)
        if isinstance(st, ast.Expr) and isinstance(st.value, ast.Call) and isinstance(st.value.func, ast.Attribute) and st.value.func.attr == "sort" \
                and isinstance(st.value.func.value, ast.Name) and self.kind.get(st.value.func.value.id) == "arr" and not st.value.args:
            n = self.g(st.value.func.value.id)
            return f"(let {n} := nsort N {n} in\n    {self.block(rest)})"
        if isinstance(st, ast.If):
            # re-binding of the dependency code:  if d == "o": d = "p"  elif d == "p": d = "o"
            rb = self.dep_rebind(st)
            if rb:
                return f"(let dependency := {rb} in\n    {self.block(rest)})"
            binds = []
            c = self.cond(st.test, binds)
            saved = dict(self.kind)
            then = self.block(st.body + (rest if not always_leaves(st.body) else []))
            self.kind = dict(saved)
            other = self.block((st.orelse or []) + (rest if not always_leaves(st.orelse or []) or not st.orelse else []))
            self.kind = saved
            return wrap(binds, f"(if {c} then {then}\n   else {other})", final_is_term=True)
        if isinstance(st, ast.Match) and ast.unparse(st.subject) == "dependency":
            arms = {}
            for case in st.cases:
                p = case.pattern
                if isinstance(p, ast.MatchValue) and isinstance(p.value, ast.Constant) and p.value.value in DEPC:
                    saved = dict(self.kind)
                    arms[DEPC[p.value.value]] = self.block(case.body + (rest if not always_leaves(case.body) else []))
                    self.kind = saved
                elif isinstance(p, ast.MatchAs) and p.pattern is None:
                    if not (len(case.body) == 1 and isinstance(case.body[0], ast.Raise)):
                        raise Unsupported(f"{self.name}: the default case of the dependency match does not raise")
                else:
                    raise Unsupported(f"{self.name}: case pattern {ast.unparse(p)}")
            if set(arms) != set(DEPC.values()):
                raise Unsupported(f"{self.name}: dependency match covers {sorted(arms)}")
            return "(match dependency with\n" + "".join(f"   | {d} => {arms[d]}\n" for d in ("DF", "DP", "DO", "DI")) + "   end)"
        raise Unsupported(f"{self.name}: statement {src[:90]}")

    def dep_rebind(self, st):
        chain, node = [], st
        while True:
            t = node.test
            if not (isinstance(t, ast.Compare) and len(t.ops) == 1 and isinstance(t.ops[0], ast.Eq) and ast.unparse(t.left) == "dependency"
                    and isinstance(t.comparators[0], ast.Constant) and t.comparators[0].value in DEPC):
                return None
            if not (len(node.body) == 1 and isinstance(node.body[0], ast.Assign) and ast.unparse(node.body[0].targets[0]) == "dependency"
                    and isinstance(node.body[0].value, ast.Constant) and node.body[0].value.value in DEPC):
                return None
            chain.append((DEPC[t.comparators[0].value], DEPC[node.body[0].value.value]))
            if len(node.orelse) == 1 and isinstance(node.orelse[0], ast.If):
                node = node.orelse[0]
                continue
            if node.orelse:
                return None
            break
        term = "dependency"
        for frm, to in reversed(chain):
            term = f"(if dep_eqb dependency {frm} then {to} else {term})"
        return term


def always_leaves(stmts):
    if not stmts:
        return False
    last = stmts[-1]
    if isinstance(last, (ast.Return, ast.Raise)):
        return True
    if isinstance(last, ast.If) and last.orelse:
        return always_leaves(last.body) and always_leaves(last.orelse)
    return False


def wrap(binds, final, final_is_term=False):
    out = final
    for v, t in reversed(binds):
        out = f"(rbind {t} (fun {v} =>\n    {out}))"
    return out


def translate(path):
    tree = ast.parse(open(path).read())
    top = {n.name: n for n in tree.body if isinstance(n, ast.FunctionDef)}
    cls = next(n for n in tree.body if isinstance(n, ast.ClassDef) and n.name == "Staircase")
    meth = {n.name: n for n in cls.body if isinstance(n, ast.FunctionDef)}
    H = "N steps p_lo p_hi"

    def params(fn, expect):
        names = [a.arg for a in fn.args.args]
        if names != expect:
            raise Unsupported(f"{fn.name}: signature {names}")

    out = [f"(* generated by tools/translate_glue.py from {path}; do not edit *)", "From Coq Require Import List Bool ZArith.",
           "From PUN Require Import Base.Num Base.Sort Model.Interval Model.Pbox Model.PboxBase.", "Import ListNotations.", "",
           "Section G.", "Variable N : Num.", "Variable steps : nat.", "Variable p_lo p_hi : N.",
           "Notation mk := (mk_staircase N steps p_lo p_hi).", "Notation pb := (pbox N).", ""]

    # -- non-recursive wrappers
    for name, sig in (("classic_frechet_pbox", ["x", "y", "op"]), ("vectorised_naive_frechet_pbox", ["x", "y", "op"])):
        params(top[name], sig)
        f = Fn(name, ["x", "y"], {})
        f.kind["op"] = "op"
        out.append(f"Definition gen_{name} (x y : pb) (op : N -> N -> N) : res pb :=\n  {f.block(top[name].body)}.\n")
    params(top["nagative_frechet_pbox"], ["x", "y"])
    f = Fn("nagative_frechet_pbox", ["x", "y"], {"classic_frechet_pbox": "gen_classic_frechet_pbox"})
    out.append(f"Definition gen_nagative_frechet_pbox (x y : pb) : res pb :=\n  {f.block(top['nagative_frechet_pbox'].body)}.\n")

    # -- the recursive trio, on fuel
    params(top["frechet_pbox_mul"], ["x", "y"])
    params(top["straddle_frechet_pbox"], ["x", "y"])
    params(meth["balchprod"], ["self", "other"])
    common = {"classic_frechet_pbox": "gen_classic_frechet_pbox", "vectorised_naive_frechet_pbox": "gen_vectorised_naive_frechet_pbox",
              "nagative_frechet_pbox": "gen_nagative_frechet_pbox"}

    def trio(rec, balch, straddle):
        fb = Fn("balchprod", ["self", "other"], dict(common, frechet_pbox_mul=rec))
        bb = fb.block(meth["balchprod"].body)
        fs = Fn("straddle_frechet_pbox", ["x", "y"], dict(common, balchprod=balch))
        sb = fs.block(top["straddle_frechet_pbox"].body)
        fm = Fn("frechet_pbox_mul", ["x", "y"], dict(common, straddle_frechet_pbox=straddle))
        mb = fm.block(top["frechet_pbox_mul"].body)
        return bb, sb, mb

    bb, sb, mb = trio("gen_frechet_pbox_mul fuel", "balchprod_", "straddle_")
    out.append("(* frechet_pbox_mul -> straddle_frechet_pbox -> Staircase.balchprod -> frechet_pbox_mul (on shifted operands): explicit fuel *)\n"
               "Fixpoint gen_frechet_pbox_mul (fuel : nat) (x y : pb) {struct fuel} : res pb :=\n  match fuel with\n  | O => NotImpl\n  | S fuel =>\n"
               f"    let balchprod_ := (fun self other : pb =>\n  {bb}) in\n"
               f"    let straddle_ := (fun x y : pb =>\n  {sb}) in\n  {mb}\n  end.\n")
    bb, sb, _ = trio("gen_frechet_pbox_mul fuel", "gen_balchprod fuel", None)
    out.append(f"Definition gen_balchprod (fuel : nat) (self other : pb) : res pb :=\n  {bb}.\n")
    out.append(f"Definition gen_straddle_frechet_pbox (fuel : nat) (x y : pb) : res pb :=\n  {sb}.\n")

    # -- the four binary operations with a p-box operand
    for name in ("add", "sub", "mul", "div"):
        params(meth[name], ["self", "other", "dependency"])
    calls = {"frechet_pbox_mul": "gen_frechet_pbox_mul fuel"}
    for name, extra in (("add", {}), ("mul", {})):
        f = Fn(name, ["self", "other"], dict(calls, **extra))
        f.kind["dependency"] = "dep"
        out.append(f"Definition gen_{name} (fuel : nat) (self other : pb) (dependency : dep) : res pb :=\n  {f.block(meth[name].body)}.\n")
    for name, callee in (("sub", "add"), ("div", "mul")):
        f = Fn(name, ["self", "other"], {callee: f"gen_{callee} fuel"})
        f.kind["dependency"] = "dep"
        out.append(f"Definition gen_{name} (fuel : nat) (self other : pb) (dependency : dep) : res pb :=\n  {f.block(meth[name].body)}.\n")
    # -- the bare operators between two p-boxes: the method of the same name under the ambient dependency
    for dunder, m in (("__add__", "add"), ("__sub__", "sub"), ("__mul__", "mul"), ("__truediv__", "div")):
        params(meth[dunder], ["self", "other"])
        f = Fn(dunder, ["self", "other"], {m: f"gen_{m} fuel"})
        f.kind["ambient"] = "dep"
        out.append(f"Definition gen_operator_{m} (fuel : nat) (self other : pb) (ambient : dep) : res pb :=\n  {f.block(meth[dunder].body)}.\n")
    out.append("End G.")
    return "\n".join(out)


if __name__ == "__main__":
    import sys
    print(translate(sys.argv[1]))
