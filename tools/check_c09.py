#!/venv/bin/python
"""C09 - a parametric p-box encloses every distribution of its parameter box."""
import itertools
import math
import os
import sys
import warnings

sys.path.insert(0, os.path.dirname(os.path.abspath(__file__)))
import vlib
import pbx
from pbx import np
from vlib import coq_list, flist, hexf

warnings.filterwarnings("ignore")

# family -> (constructor name in pba, parameter roles).  role: loc (any real), scale (>0), shape (>0)
FAMILIES = {
    "normal": ("normal", ["loc", "scale"]),
    "lognormal": ("lognormal", ["loc1", "shape_small"]),
    "exponential": ("exponential", ["loc", "scale"]),
    "gumbel_r": ("gumbel_r", ["loc", "scale"]),
    "logistic": ("logistic", ["loc", "scale"]),
    "laplace": ("laplace", ["loc", "scale"]),
    "rayleigh": ("rayleigh", ["loc", "scale"]),
    "gamma": ("gamma", ["shape", "loc", "scale"]),
}
WIDTHS = ["zero", "rel1e-9", "rel1e-6", "rel1e-4", "abs", "wide", "tiny"]


def gen_param(rng, role, wkind):
    if role == "loc":
        c = rng.choice([0.0, 1.0, -3.0, 50.0, 1000.0, 5e4, -2000.0])
    elif role == "loc1":
        c = rng.choice([0.0, 1.0, -1.0, 2.0])
    elif role == "shape_small":
        c = rng.choice([0.25, 0.5, 1.0])
    else:
        c = rng.choice([0.5, 1.0, 2.0, 10.0, 400.0, 3000.0, 0.01])
    if wkind == "tiny" and role in ("scale", "shape"):
        lo = rng.choice([1e-9, 2e-9, 3e-7])
        return (lo, lo * rng.choice([4.0, 9.0]))
    if wkind == "zero":
        return (c, c)
    if wkind.startswith("rel"):
        w = abs(c if c != 0 else 1.0) * float(wkind[3:]) * rng.choice([1.0, 3.0])
    elif wkind == "abs":
        w = rng.choice([0.25, 0.5, 1.0])
    else:
        w = rng.choice([2.0, 5.0]) * (abs(c) if role != "loc" and role != "loc1" else 1.0)
    lo, hi = c, c + w
    if role in ("scale", "shape", "shape_small") and lo <= 0:
        lo, hi = 0.5, 0.5 + w
    return (lo, hi)


def spell(rng, iv):
    from pyuncertainnumber import pba
    lo, hi = iv
    if lo == hi and rng.random() < 0.5:
        return lo, "number"
    k = rng.choice(["list", "tuple", "Interval"])
    return ([lo, hi] if k == "list" else (lo, hi) if k == "tuple" else pba.I(lo, hi)), k


def members(rng, box, n):
    """parameter points inside the box: every corner, the centre, edge midpoints, random interior points"""
    pts = [list(c) for c in itertools.product(*[(lo, hi) for lo, hi in box])]
    pts.append([(lo + hi) / 2 for lo, hi in box])
    for i, (lo, hi) in enumerate(box):
        for base in pts[:2 ** len(box)][:2]:
            q = list(base)
            q[i] = (lo + hi) / 2
            pts.append(q)
    for _ in range(n):
        pts.append([lo + (hi - lo) * rng.random() for lo, hi in box])
    return pts


def body(chk):
    from pyuncertainnumber import pba
    from pyuncertainnumber.pba.params import Params
    from pyuncertainnumber.pba.distributions import named_dists
    pbx.patch_fast_moments()
    pr = chk.do_proofs()
    rng = chk.rng
    pv = np.asarray(Params.p_values, float)
    items, uitems, flat, uflat = [], [], [], []
    n_per = 6 if chk.tier == "quick" else 40
    for fam, (ctor, roles) in FAMILIES.items():
        dist = named_dists[ctor if ctor != "normal" else "norm"]
        for it in range(n_per):
            wk = [rng.choice(WIDTHS) for _ in roles]
            if it < len(WIDTHS):
                wk = [WIDTHS[it] if j == it % len(roles) else rng.choice(["zero", "abs"]) for j in range(len(roles))]
            box = [gen_param(rng, r, w) for r, w in zip(roles, wk)]
            args, spells = zip(*[spell(rng, iv) for iv in box])
            site = f"parametric:{fam}:{'+'.join(wk)}"
            chk.count(f"{fam}-{'+'.join(sorted(set(wk)))}", key=(fam, tuple(box), spells))
            replay = {"kind": "oracle", "family": fam, "box": [list(b) for b in box], "spelling": list(spells)}
            try:
                p = getattr(pba, ctor)(*args)
                L, R = np.asarray(p.left, float), np.asarray(p.right, float)
                mean, var = (float(p.mean.lo), float(p.mean.hi)), (float(p.var.lo), float(p.var.hi))
            except Exception as e:
                chk.report(site, f"pba.{ctor}{tuple(box)} fails: {type(e).__name__}: {str(e)[:80]}", replay)
                continue
            # oracle: every member's quantile function, mean and variance
            worst = None
            for th in members(rng, box, 6 if chk.tier == "quick" else 20):
                q = np.asarray(dist.ppf(pv, *th), float)
                m, v = (float(x) for x in dist.stats(*th, moments="mv"))
                tol = 16 * np.spacing(np.maximum(np.abs(q), 1e-300))
                badL, badR = q < L - tol, q > R + tol
                if badL.any() or badR.any():
                    k = int(np.argmax(np.maximum(L - q, q - R)))
                    worst = (f"member {th} has quantile {q[k]!r} at level {pv[k]:.4f} outside the bounds [{L[k]!r}, {R[k]!r}]", th)
                    break
                mt, vt = 1e-12 * max(1.0, abs(m)), 1e-12 * max(1.0, abs(v))
                if not (mean[0] - mt <= m <= mean[1] + mt):
                    worst = (f"member {th} has mean {m!r} outside the reported mean interval [{mean[0]!r}, {mean[1]!r}]", th)
                    break
                if not (var[0] - vt <= v <= var[1] + vt):
                    worst = (f"member {th} has variance {v!r} outside the reported variance interval [{var[0]!r}, {var[1]!r}]", th)
                    break
            if worst:
                chk.report(site, f"pba.{ctor} with parameter box {[list(b) for b in box]} ({'/'.join(spells)}): " + worst[0], dict(replay, member=worst[1]))
            if all(lo == hi for lo, hi in box):
                q = np.asarray(dist.ppf(pv, *[lo for lo, _ in box]), float)
                if not (np.array_equal(L, q) and np.array_equal(R, q)):
                    chk.report(site + ":point", f"pba.{ctor} with point-valued parameters {[b[0] for b in box]} does not coincide with the family's quantile function", replay)
            # correspondence: the model's corner enumeration and column-wise reduction on scipy's corner arrays
            corners = [list(c) for c in itertools.product(*[(lo, hi) for lo, hi in box])]
            arrs = [[float(x) for x in dist.ppf(pv, *c)] for c in corners]
            st = [dist.stats(*c, moments="mv") for c in corners]
            items.append("(mkP " + coq_list([f"({hexf(lo)}, {hexf(hi)})" for lo, hi in box]) + " " + coq_list([flist(c) for c in corners]) + " " +
                         coq_list([flist(a) for a in arrs]) + " " + flist([float(s[0]) for s in st]) + " " + flist([float(s[1]) for s in st]) + " " +
                         flist(L) + " " + flist(R) + f" ({hexf(mean[0])}, {hexf(mean[1])}) ({hexf(var[0])}, {hexf(var[1])}))")
            flat.append((site, replay))

    # the bespoke uniform constructor: within one probability step
    n_uni = 8 if chk.tier == "quick" else 60
    for _ in range(n_uni):
        a = gen_param(rng, "loc", rng.choice(["zero", "abs", "rel1e-6"]))
        b0 = a[1] + rng.choice([0.5, 2.0, 10.0])
        b = (b0, b0 + rng.choice([0.0, 0.5, 3.0]))
        (sa, ka), (sb, kb) = spell(rng, a), spell(rng, b)
        site = "parametric:uniform"
        chk.count("uniform", key=(a, b, ka, kb))
        replay = {"kind": "oracle", "family": "uniform", "a": list(a), "b": list(b)}
        try:
            p = pba.uniform(sa, sb)
            L, R = np.asarray(p.left, float), np.asarray(p.right, float)
        except Exception as e:
            chk.report(site, f"pba.uniform({a}, {b}) fails: {type(e).__name__}: {str(e)[:80]}", replay)
            continue
        n = len(L)
        for th in members(rng, [a, b], 6):
            q = th[0] + pv * (th[1] - th[0])
            # within one probability step: the member's quantile at level p_k lies between left[k-1] and right[k+1]
            Ls = np.concatenate([[L[0] - (L[1] - L[0])], L[:-1]])
            Rs = np.concatenate([R[1:], [R[-1] + (R[-1] - R[-2])]])
            tol = 16 * np.spacing(np.maximum(np.abs(q), 1e-300))
            if ((q < Ls - tol) | (q > Rs + tol)).any():
                k = int(np.argmax(np.maximum(Ls - q, q - Rs)))
                chk.report(site, f"pba.uniform({list(a)}, {list(b)}): member uniform({th[0]}, {th[1]}) has quantile {q[k]!r} at level {pv[k]:.4f} more than one "
                           f"probability step outside the bounds [{L[k]!r}, {R[k]!r}]", dict(replay, member=th))
                break
        uitems.append(f"({n}%nat, ({hexf(a[0])}, {hexf(a[1])}), ({hexf(b[0])}, {hexf(b[1])}), ({flist(L)}, {flist(R)}))")
        uflat.append((site, replay))

    # keyword route: the scale handed over as a keyword only (location at its default 0), two different boxes of ONE family in a row;
    # every p-box is decided against the members of ITS OWN parameter box
    for fam in ("exponential", "rayleigh", "logistic", "laplace", "gumbel_r"):
        ctor = FAMILIES[fam][0]
        dist = named_dists[ctor]
        boxes = [gen_param(rng, "scale", "wide"), gen_param(rng, "scale", "abs"), gen_param(rng, "scale", "zero")]
        for step, sc in enumerate(boxes):
            arg, sp = spell(rng, sc)
            chk.count(f"{fam}-keyword-scale", key=(fam, "kw", step, tuple(sc)))
            replay = {"kind": "oracle", "family": fam, "call": f"pba.{ctor}(scale={list(sc)})", "earlier_calls_of_this_family": [list(b) for b in boxes[:step]], "spelling": sp}
            try:
                p = getattr(pba, ctor)(scale=arg)
                L, R = np.asarray(p.left, float), np.asarray(p.right, float)
            except TypeError:
                break          # the constructor does not take the scale as a keyword alone
            except Exception as e:
                chk.report(f"parametric:{fam}:keyword", f"pba.{ctor}(scale={list(sc)}) fails: {type(e).__name__}: {str(e)[:80]}", replay)
                continue
            for th in members(rng, [(0.0, 0.0), sc], 4):
                q = np.asarray(dist.ppf(pv, *th), float)
                tol = 16 * np.spacing(np.maximum(np.abs(q), 1e-300))
                if (q < L - tol).any() or (q > R + tol).any():
                    k = int(np.argmax(np.maximum(L - q, q - R)))
                    chk.report(f"parametric:{fam}:keyword", f"pba.{ctor}(scale={list(sc)}), call {step + 1} of this family with the scale as a keyword: member {th} has quantile {q[k]!r} "
                               f"at level {pv[k]:.4f} outside the bounds [{L[k]!r}, {R[k]!r}]", dict(replay, member=th))
                    break
    # the bespoke exponential constructor parameterised by the rate: oracle only (members sampled over the rate interval)
    import scipy.stats as sps
    for _ in range(6 if chk.tier == "quick" else 40):
        lam = gen_param(rng, "scale", rng.choice(["zero", "abs", "rel1e-6", "wide", "tiny"]))
        sl, kl = spell(rng, lam)
        site = "parametric:exponential_by_lambda"
        chk.count("exponential_by_lambda", key=(lam, kl))
        replay = {"kind": "oracle", "family": "exponential_by_lambda", "rate": list(lam), "spelling": kl}
        try:
            p = pba.exponential_by_lambda(sl if kl != "number" else [lam[0], lam[1]])
            L, R = np.asarray(p.left, float), np.asarray(p.right, float)
        except Exception as e:
            chk.report(site, f"pba.exponential_by_lambda({list(lam)}) fails: {type(e).__name__}: {str(e)[:80]}", replay)
            continue
        for th in members(rng, [lam], 6):
            q = np.asarray(sps.expon(scale=1 / th[0]).ppf(pv), float)
            tol = 16 * np.spacing(np.maximum(np.abs(q), 1e-300))
            if ((q < L - tol) | (q > R + tol)).any():
                k = int(np.argmax(np.maximum(L - q, q - R)))
                chk.report(site, f"pba.exponential_by_lambda({list(lam)}): the member with rate {th[0]} has quantile {q[k]!r} at level {pv[k]:.4f} outside the bounds [{L[k]!r}, {R[k]!r}]",
                           dict(replay, member=th))
                break
    chunks = []
    CH = 6
    for s in range(0, len(items), CH):
        chunks.append(("Definition cases : list pcase := " + coq_list(items[s:s + CH]) + ".\nDefinition verdicts := map pcheck cases.\n", len(items[s:s + CH])))
    nchunks_p = len(chunks)
    for s in range(0, len(uitems), 20):
        chunks.append(("Definition cases : list ucase := " + coq_list(uitems[s:s + 20]) + ".\nDefinition verdicts := map ucheck cases.\n", len(uitems[s:s + 20])))
    allflat = flat + uflat
    exact, rounded, bad, log = vlib.run_coq_cases("C09", chunks, "From PUN Require Import Model.Parametric Gen.GenParametric Corr.CorrC09.\n", jobs=16)
    chk.corr = {"parametric_cases": len(items), "uniform_cases": len(uitems), "bit_exact": exact, "rounded": rounded, "disagree": len(bad)}
    if log:
        chk.corr["log"] = log[-600:]
    chk.sample({"site": flat[0][0], "replay": flat[0][1]})
    chk.sample({"site": flat[len(flat) // 2][0], "replay": flat[len(flat) // 2][1]})
    seen = set()
    for i in bad:
        site, replay = allflat[i]
        if site in seen:
            continue
        seen.add(site)
        chk.report(site, "the bounds differ from the model's corner envelope (scipy evaluated on every corner of the parameter box, column-wise min / max)",
                   dict(replay, kind="correspondence"), found_input=True)
    if not pr["ok"]:
        if not chk.violations:
            chk.report("proof", "proof obligation no longer checks", chk.proof_broken_replay(), found_input=False)
        else:
            chk.violations[0][0]["proof_broken"] = chk.proof_broken_replay()


RULE = ("families normal, lognormal, exponential, Gumbel, logistic, Laplace, Rayleigh (loc, scale), gamma (shape, loc, scale); parameter boxes with centres from 0 to 5e4, "
        "widths {0, 1e-9, 1e-6, 1e-4 relative, 0.25-1 absolute, wide, tiny-magnitude scales 1e-9..3e-7}, spelled as numbers, lists, tuples and Interval objects; "
        "members = every corner, the centre, edge midpoints and random interior points: quantiles at all grid levels, mean and variance (scipy). "
        "The bespoke uniform constructor within one probability step. Bounds compared bit for bit with the Coq corner envelope run on scipy's corner arrays. "
        "distinct key = (family, box, spelling)")
TB = ["scipy.stats ppf / stats are libraries: their monotonicity in each parameter is the hypothesis of the theorem (proved only for location-scale quantiles); "
      "the oracle samples members instead",
      "translator tools/translate_parametric.py recognises the statements of _parametric_bounds_array / uniform / Interval.to_numpy exactly (fail-closed)",
      "wc_scalar_interval (parameter spelling) is glue exercised by the harness over numbers, lists, tuples and Interval objects"]

if __name__ == "__main__":
    chk = vlib.main_wrapper("C09", body)
    sys.exit(chk.finish(rule=RULE, trusted_base=TB))
