#!/venv/bin/python
"""C20 - hedged expressions and significant digits decode to intervals about the number."""
import math
import os
import sys
from fractions import Fraction

sys.path.insert(0, os.path.dirname(os.path.abspath(__file__)))
import vlib
from vlib import coq_list

vlib.setup_impl_path()
import numpy as np

HEDGES = ["exactly", "about", "around", "almost", "over", "below", "above", "at most", "at least", "count", "order"]
HALF = {"exactly": (Fraction(1), 1), "about": (Fraction(2), 0), "around": (Fraction(10), 0)}     # (c, s): c * 10^-(d+s)


def gen_numeral(rng):
    """(neg, mantissa digits as int, fractional digit count or None, exponent or None) and its written form"""
    style = rng.choice(["int", "int0", "dec", "dec0", "sub1", "exp", "expdec", "big", "point0", "exppoint0"])
    neg = rng.random() < 0.3
    exp = None
    if style == "int":
        m, f = rng.randint(1, 999), None
    elif style == "int0":
        m, f = rng.randint(1, 99) * 10 ** rng.randint(1, 3), None
    elif style == "dec":
        f = rng.randint(1, 3)
        m = rng.randint(1, 9999)
    elif style == "dec0":           # trailing zeros after the point are written digits
        f = rng.randint(2, 4)
        m = rng.randint(1, 999) * 10 ** rng.randint(1, f - 1)
    elif style == "sub1":           # values below one
        f = rng.randint(2, 5)
        m = rng.randint(1, 10 ** (f - 1) - 1)
    elif style == "exp":
        m, f, exp = rng.randint(1, 99), None, rng.randint(-4, 5)
    elif style == "expdec":
        f = rng.randint(1, 3)
        m, exp = rng.randint(10, 9999), rng.randint(-4, 5)
    elif style == "point0":         # a written decimal point with no fractional digits: every digit before it is significant ("200.")
        m, f = rng.choice([rng.randint(1, 99) * 10 ** rng.randint(1, 3), rng.randint(1, 999)]), 0
    elif style == "exppoint0":      # "20.e1"
        m, f, exp = rng.choice([rng.randint(1, 99) * 10 ** rng.randint(1, 2), rng.randint(1, 99)]), 0, rng.randint(-4, 5)
    else:
        m, f = rng.randint(1000, 99999), None
    digits = str(m)
    if f == 0:
        text = digits + "."
    elif f is not None:
        digits = digits.rjust(f + 1, "0")
        text = digits[:-f] + "." + digits[-f:]
    else:
        text = digits
    if exp is not None:
        text += rng.choice(["e", "E"]) + str(exp)
    if neg:
        text = "-" + text
    return (neg, m, f, exp), text, style


def exact_value(num):
    neg, m, f, exp = num
    v = Fraction(m) / (10 ** (f or 0)) * Fraction(10) ** (exp or 0)
    return -v if neg else v


def place(num):
    neg, m, f, exp = num
    return (f or 0) - (exp or 0)


def fin(v):
    v = float(v)
    return ("inf", 1) if v == math.inf else (("inf", -1) if v == -math.inf else ("q", Fraction(v)))


def run_hedge(text):
    from pyuncertainnumber.nlp.language_parsing import hedge_interpret
    try:
        r = hedge_interpret(text)
        if type(r).__name__ != "Interval":
            return ("exc", f"returned {type(r).__name__}: {str(r)[:40]}")
        return ("ok", float(r.lo), float(r.hi))
    except Exception as e:
        return ("exc", type(e).__name__ + ": " + str(e)[:60])


def close(x, ref, rel=1e-12):
    if ref in (math.inf, -math.inf):
        return x == ref
    return abs(Fraction(x) - Fraction(ref)) <= Fraction(rel) * max(abs(Fraction(ref)), abs(Fraction(x))) + Fraction(1, 10 ** 300)


def oracle(kw, num, text, out):
    """independent reference from the written numeral (exact rationals)"""
    x = exact_value(num)
    d = place(num)
    unit = Fraction(10) ** (-d)
    if out[0] != "ok":
        if kw == "order" and x < 0:
            return None          # [x/2, 5x] is not an interval for a negative number; documented hedge for magnitudes only
        return f"'{text}' raises / is not interpreted: {out[1]}"
    lo, hi = out[1], out[2]
    if kw in HALF:
        c, s = HALF[kw]
        hw = c * Fraction(10) ** (-(d + s))
        if not (close(lo, x - hw) and close(hi, x + hw)):
            return f"'{text}' -> [{lo}, {hi}], expected {float(x)} +- {float(hw)} (decimal place of the last written digit d={d})"
        if not (lo < float(x) < hi or hw == 0):
            return f"'{text}' -> [{lo}, {hi}] does not contain the stated number"
    elif kw in ("almost", "below"):
        w = (Fraction(1, 2) if kw == "almost" else 2) * unit
        if not (close(hi, x) and close(lo, x - w)):
            return f"'{text}' -> [{lo}, {hi}], expected [{float(x - w)}, {float(x)}]"
    elif kw in ("over", "above"):
        w = (Fraction(1, 2) if kw == "over" else 2) * unit
        if not (close(lo, x) and close(hi, x + w)):
            return f"'{text}' -> [{lo}, {hi}], expected [{float(x)}, {float(x + w)}]"
    elif kw == "at most":
        if not (lo == -math.inf and close(hi, x)):
            return f"'{text}' -> [{lo}, {hi}], expected [-inf, {float(x)}]"
    elif kw == "at least":
        if not (hi == math.inf and close(lo, x)):
            return f"'{text}' -> [{lo}, {hi}], expected [{float(x)}, inf]"
    elif kw == "count":
        r = math.sqrt(abs(float(x)))
        if not (close(lo, float(x) - r, 1e-9) and close(hi, float(x) + r, 1e-9)):
            return f"'{text}' -> [{lo}, {hi}], expected {float(x)} +- sqrt|x|"
    elif kw == "order":
        if not (close(lo, x / 2) and close(hi, 5 * x)):
            return f"'{text}' -> [{lo}, {hi}], expected [x/2, 5x]"
    elif kw == "":
        # significant digits: half a unit of the last significant written digit
        neg, m, f, exp = num
        if f is not None:
            j = f
        else:
            tz = len(str(m)) - len(str(m).rstrip("0"))
            j = -tz
        pm = Fraction(10) ** (-j) * Fraction(10) ** (exp or 0) / 2
        if not (close(lo, x - pm) and close(hi, x + pm)):
            return f"'{text}' -> [{lo}, {hi}], expected {float(x)} +- {float(pm)} (half a unit of the last significant digit)"
    return None


def coq_numeral(num):
    neg, m, f, exp = num
    return f"(mkNum {'true' if neg else 'false'} {m}%Z {'(Some %d%%nat)' % f if f is not None else 'None'} ({exp or 0})%Z)"


def coq_val(v):
    k = fin(v)
    if k[0] == "inf":
        return "HPInf" if k[1] > 0 else "HNInf"
    q = k[1]
    return f"(HQ (({q.numerator})%Z # {q.denominator}))"


def body(chk):
    from pyuncertainnumber.characterisation.utils import sgnumber
    pr = chk.do_proofs()
    rng = chk.rng
    n_num = 60 if chk.tier == "quick" else 900
    items, flat = [], []
    FIXED = [((False, 200, 0, None), "200.", "point0"), ((True, 200, 0, None), "-200.", "point0"), ((False, 10, 0, None), "10.", "point0"),
             ((False, 20, 0, 1), "20.e1", "exppoint0"), ((False, 1500, 0, -2), "1500.e-2", "exppoint0"), ((False, 7, 0, None), "7.", "point0"),
             ((False, 200, None, None), "200", "int0"), ((False, 2000, 1, None), "200.0", "dec0"), ((False, 5, None, 3), "5e3", "exp"),
             ((True, 125, 2, None), "-1.25", "dec"), ((False, 1, 3, None), "0.001", "sub1"), ((False, 90, None, None), "90", "int0")]
    for k in range(len(FIXED) + n_num):
        num, text, style = FIXED[k] if k < len(FIXED) else gen_numeral(rng)
        results = {}
        for kw in HEDGES + [""]:
            phrase = (kw + " " + text).strip()
            if kw == "":
                try:
                    r = sgnumber(text)
                    out = ("ok", float(r[0]), float(r[1]))
                except Exception as e:
                    out = ("exc", type(e).__name__ + ": " + str(e)[:60])
                # the other public routes to the significant-digit reading: a bare numeral handed to hedge_interpret
                via = run_hedge(text)
                chk.count("bare-via-hedge_interpret", key=("bare-hi", text))
                if via != out and not (via[0] == out[0] == "exc"):
                    chk.report("hedge:sgnumber:route", f"hedge_interpret('{text}') = {via[1:]} differs from sgnumber('{text}') = {out[1:]}", {"kind": "route", "text": text})
            else:
                out = run_hedge(phrase)
            results[kw] = out
            chk.count(f"{kw or 'bare'}-{style}", key=(kw, style, num[0], text))
            why = oracle(kw, num, phrase, out)
            if why:
                chk.report(f"hedge:{kw or 'sgnumber'}:{style}{':neg' if num[0] else ''}", why, {"kind": "oracle", "text": phrase, "numeral": num, "observed": out})
            o = f"HOk {coq_val(out[1])} {coq_val(out[2])}" if out[0] == "ok" else "HExc"
            if kw not in ("count", "order"):
                items.append(f'("{kw}"%string, {coq_numeral(num)}, {o})')
                flat.append((phrase, num, out))
        # relations: exactly inside about inside around; sign and power-of-ten equivariance of the offsets
        e, a, r = results["exactly"], results["about"], results["around"]
        if e[0] == a[0] == r[0] == "ok" and not (r[1] < a[1] < e[1] and e[2] < a[2] < r[2]):
            chk.report("hedge:order", f"not ordered exactly within about within around for '{text}': {e[1:]}, {a[1:]}, {r[1:]}", {"kind": "oracle", "text": text})
        neg, m, f, exp = num
        flipped = ("" if neg else "-") + text.lstrip("-")
        shifted_num = (neg, m, f, (exp or 0) + 2)
        base = text.split("e")[0].split("E")[0]
        shifted = base + "e" + str((exp or 0) + 2)
        for kw in ("about", "almost", "above", "exactly"):
            o1 = results[kw]
            o2 = run_hedge(kw + " " + flipped)
            o3 = run_hedge(kw + " " + shifted)
            chk.count("equivariance", nontrivial=False, n=2)
            x = float(exact_value(num))
            if o1[0] == "ok" and o2[0] == "ok":
                if not (close(o2[1] + x, o1[1] - x, 1e-9) or abs((o2[1] + x) - (o1[1] - x)) < 1e-9 * max(1, abs(x))) :
                    chk.report("hedge:sign", f"'{kw} {text}' and '{kw} {flipped}' have different offsets from the number", {"kind": "oracle", "text": text, "kw": kw, "a": o1, "b": o2})
            elif o1[0] != o2[0]:
                chk.report("hedge:sign", f"'{kw} {flipped}' behaves differently from '{kw} {text}': {o2}", {"kind": "oracle", "text": text, "kw": kw})
            if o1[0] == "ok" and o3[0] == "ok":
                if not (close(o3[1], Fraction(o1[1]) * 100, 1e-9) and close(o3[2], Fraction(o1[2]) * 100, 1e-9)):
                    chk.report("hedge:pow10", f"'{kw} {shifted}' = {o3[1:]} is not 100 x '{kw} {text}' = {o1[1:]}", {"kind": "oracle", "text": text, "kw": kw})
            elif o1[0] != o3[0]:
                chk.report("hedge:pow10", f"'{kw} {shifted}' behaves differently from '{kw} {text}': {o3}", {"kind": "oracle", "text": text, "kw": kw})
    # the first phrases once more, after everything else has been interpreted: the same text must decode the same way (no remembered state)
    for phrase, num, out in flat[:60]:
        kw = " ".join(w for w in phrase.split()[:-1])
        if kw == "":
            continue
        again = run_hedge(phrase)
        chk.count("second-reading", nontrivial=False)
        why = oracle(kw, num, phrase, again)
        if why:
            chk.report(f"hedge:{kw}:second-reading", "interpreted a second time, after many other expressions: " + why, {"kind": "oracle", "text": phrase, "numeral": num, "first": out, "second": again})
    chunks = []
    CH = 200
    for s in range(0, len(items), CH):
        chunks.append(("Definition cases : list hcase := " + coq_list(items[s:s + CH]).replace('; ("', ';\n ("') +
                       ".\nDefinition verdicts := map hcheck cases.\n", len(items[s:s + CH])))
    exact, rounded, bad, log = vlib.run_coq_cases("C20", chunks, "From Coq Require Import QArith.\nFrom PUN Require Import Gen.GenHedge Model.Hedge Corr.CorrC20.\n", jobs=8, scope="Q_scope")
    chk.corr = {"cases": len(items), "agree": exact, "disagree": len(bad)}
    if log:
        chk.corr["log"] = log[-600:]
    chk.sample({"text": flat[0][0], "numeral": flat[0][1], "impl": flat[0][2]})
    chk.sample({"text": flat[37][0], "numeral": flat[37][1], "impl": flat[37][2]})
    for i in bad[:3]:
        phrase, num, out = flat[i]
        chk.report("correspondence:hedge", "model and implementation disagree", {"kind": "correspondence", "text": phrase, "numeral": num, "observed": out, "coq_log": log[-300:]}, found_input=True)
    if not pr["ok"]:
        if not chk.violations:
            chk.report("proof", "proof obligation no longer checks", chk.proof_broken_replay(), found_input=False)
        else:
            chk.violations[0][0]["proof_broken"] = chk.proof_broken_replay()


RULE = ("generated numerals: integers, integers with trailing zeros, decimals, decimals with trailing zeros, values below one, exponent notation (with and without a point), "
        "large integers, each also negative; combined with every hedge word and as bare numerals (sgnumber); compared with the Coq model in exact rationals (table translated "
        "from the source) and with an independent reference computed from the written digits; ordering, sign and power-of-ten equivariance relate pairs of calls. "
        "distinct key = (hedge, numeral style, sign, text); equivariance re-runs are counted as trivial")
TB = ["translator tools/translate_hedge.py (match arms -> bound table; how d is obtained is checked syntactically)",
      "Python Decimal / float parsing of the numeral is glue: the model receives the numeral as (sign, digits, fractional digits, exponent)",
      "'count' and 'order' are not table-like: oracle only; 'order' of a negative number is outside the hedge's meaning",
      "agreement tolerance 2^-46 relative (the implementation computes in binary64)"]

if __name__ == "__main__":
    chk = vlib.main_wrapper("C20", body)
    sys.exit(chk.finish(rule=RULE, trusted_base=TB))
