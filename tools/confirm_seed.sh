#!/bin/sh
# usage: tools/confirm_seed.sh <name> <delivery dir> <scratch worktree>
# copies a sub-agent's delivery to seeded/<name>/, and confirms it in the scratch worktree (never in /repo): demo exits 0 without the
# change, 1 with it, the repository's own test suite on the changed tree; writes seeded/<name>/result.json (preliminary; run_seeds.sh adds the check)
n=$1; src=$2; wt=$3; d=/verif/seeded/$n
mkdir -p $d; cp $src/patch.diff $src/demo.py $src/meta.json $d/ || exit 2
git -C $wt checkout -q -- . ; 
[ -z "$(git -C $wt status --porcelain)" ] || { echo "$n: worktree not clean"; exit 2; }
(cd /tmp && PYTHONPATH=$wt/src MPLBACKEND=Agg PYTHONDONTWRITEBYTECODE=1 timeout 900 /venv/bin/python $d/demo.py >/dev/null 2>&1); dc=$?
git -C $wt apply $d/patch.diff || { echo "{\"seed\": \"$n\", \"applies\": false}" > $d/result.json; exit 1; }
(cd /tmp && PYTHONPATH=$wt/src MPLBACKEND=Agg PYTHONDONTWRITEBYTECODE=1 timeout 900 /venv/bin/python $d/demo.py >/dev/null 2>&1); ds=$?
tf=$(cd $wt && PYTHONPATH=$wt/src MPLBACKEND=Agg PYTHONDONTWRITEBYTECODE=1 timeout 1800 /venv/bin/python -m pytest -q -p no:cacheprovider --timeout=900 tests 2>&1 | grep -E "^FAILED|^ERROR" | grep -vc "test_fit.py::test_mom")
git -C $wt checkout -q -- .
echo "{\"seed\": \"$n\", \"applies\": true, \"demo_exit_unchanged\": $dc, \"demo_exit_seeded\": $ds, \"repo_test_failures_with_change\": $tf}" > $d/result.json
cat $d/result.json
