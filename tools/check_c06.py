#!/venv/bin/python
"""C06 - p-box with a real number, negation, reciprocal and monotone maps act step by step, exactly."""
import math
import os
import sys
from fractions import Fraction

sys.path.insert(0, os.path.dirname(os.path.abspath(__file__)))
import vlib
import pbx
from pbx import np, coq_pb, coq_pout, fr, flist
from vlib import coq_list, hexf

NUM_KINDS = ["int", "float", "npfloat", "npint"]
OPS = ["UAdd", "URAdd", "USub", "URSub", "UMul", "URMul", "UDiv", "URDiv", "UNeg", "URecip", "exp", "log", "sqrt", "pow"]


def mk_number(kind, c):
    if kind == "int":
        return int(c)
    if kind == "float":
        return float(c)
    if kind == "npfloat":
        return np.float64(c)
    return np.int64(int(c))


def gen_cases(chk, tier):
    """systematic: every operation x every p-box kind (incl. partially degenerate ones) with the sign of c cycling"""
    rng = chk.rng
    out = []
    reps = 1 if tier == "quick" else 10
    combos = [(op, kind) for op in OPS for kind in pbx.KINDS]
    # decreasing maps on partially degenerate p-boxes: the whole-array switch must still fire
    combos += [(op, kind) for op in ("UMul", "URMul", "UDiv", "URDiv", "URSub", "UNeg", "URecip", "pow") for kind in pbx.TOUCH]
    signs = [-1, 0, 1, -1, 1]
    for rep in range(reps):
        for i, (op, kind) in enumerate(combos):
            if op in ("log", "sqrt") and rng.random() < 0.8 and not kind.startswith("touch"):
                kind = rng.choice(["pos", "precise", "interval"]) if op == "log" else rng.choice(["pos", "zero_lo", "steps"])
            X = pbx.gen_bounds(rng, 200, kind, dy=rng.random() < 0.5)
            if op in ("log", "sqrt", "URecip", "URDiv") and rng.random() < 0.8 and X[0][0] <= 0 <= X[1][-1]:
                sh = -X[0][0] + pbx.dyadic(rng, 0.125, 2)
                if rng.random() < 0.4 and op in ("URecip", "URDiv"):
                    sh = -X[1][-1] - pbx.dyadic(rng, 0.125, 2)
                X = ([v + sh for v in X[0]], [v + sh for v in X[1]])
            nk = rng.choice(NUM_KINDS)
            sgn = signs[(i + rep) % len(signs)]
            if kind.startswith("touch_") and op in ("UMul", "URMul", "UDiv", "URDiv"):
                sgn = -1
            mag = rng.randint(1, 5) if rng.random() < 0.5 else pbx.dyadic(rng, 0.125, 4.0)
            c = sgn * mag
            if nk in ("int", "npint"):
                c = int(round(c)) if abs(c) >= 1 else sgn
            if op == "pow":
                c = rng.choice([2, 3, 0.5, 1.5, 2.0, -1, -2, 4]) if X[0][0] > 0 else rng.choice([2, 3, 4, -1, -2, 1])
                nk = "float" if isinstance(c, float) else rng.choice(["int", "npint"])
            out.append((op, X, nk, c, kind))
    # integer-valued bounds given as integer-dtype arrays: every operation once per repetition
    for rep in range(reps):
        for i, op in enumerate(OPS):
            neg = (i + rep) % 3 == 0 and op not in ("log", "sqrt")
            base = sorted(rng.randint(1, 60) for _ in range(200))
            w = sorted(rng.randint(0, 5) for _ in range(200))
            L, R = [float(b) for b in base], [float(b + d) for b, d in zip(base, w)]
            if neg:
                L, R = [-v for v in reversed(R)], [-v for v in reversed(L)]
            nk = rng.choice(NUM_KINDS)
            c = rng.choice([2, 3, -2, 1]) if nk in ("int", "npint") else rng.choice([0.5, 2.0, -1.5])
            if op == "pow":
                c, nk = rng.choice([2, 3, -1]), "int"
            out.append((op, (L, R), nk, c, "int_neg" if neg else "int_pos"))
    return out


def apply_impl(op, x, c):
    if op == "UAdd":
        return x + c
    if op == "URAdd":
        return c + x
    if op == "USub":
        return x - c
    if op == "URSub":
        return c - x
    if op == "UMul":
        return x * c
    if op == "URMul":
        return c * x
    if op == "UDiv":
        return x / c
    if op == "URDiv":
        return c / x
    if op == "UNeg":
        return -x
    if op == "URecip":
        return x.reciprocal()
    if op == "exp":
        return np.exp(x) if float(c) > 0 else x.exp()
    if op == "log":
        return np.log(x) if float(c) > 0 else x.log()
    if op == "sqrt":
        return np.sqrt(x) if float(c) > 0 else x.sqrt()
    if op == "pow":
        return x ** c


def run_impl(case):
    from pyuncertainnumber.pba.pbox_abc import Staircase
    op, X, nk, c, kind = case
    try:
        if kind.startswith("int_"):       # bounds handed over as integer-dtype arrays
            x = Staircase(np.array([int(v) for v in X[0]], dtype=np.int64), np.array([int(v) for v in X[1]], dtype=np.int64))
        else:
            x = Staircase(np.array(X[0]), np.array(X[1]))
        r = apply_impl(op, x, mk_number(nk, c))
        if not hasattr(r, "left"):
            return ("exc", 9, f"returned {type(r).__name__}")
        return ("ok", [float(v) for v in r.left], [float(v) for v in r.right])
    except Exception as e:
        return ("exc", pbx.exc_code(e), type(e).__name__ + ": " + str(e)[:100])


def coq_case(case, out):
    op, X, nk, c, _ = case
    L, R = np.array(X[0]), np.array(X[1])
    with np.errstate(all="ignore"):
        if op in ("exp", "log", "sqrt"):
            f = {"exp": np.exp, "log": np.log, "sqrt": np.sqrt}[op]
            ok = "true" if (op != "log" or L[0] > 0) else "false"
            code = f"UMap {flist(f(L))} {flist(f(R))} {ok}"
        elif op == "pow":
            cc = mk_number(nk, c)
            try:
                l, r = L ** cc, R ** cc
            except Exception:
                l, r = L * np.nan, R * np.nan
            tab = {}
            for a, b in list(zip(L, l)) + list(zip(R, r)):
                tab.setdefault(float(a), float(b))
            code = "(UPow [" + "; ".join(f"({vlib.hexf(a)}, {vlib.hexf(b)})" for a, b in tab.items()) + "])"
        elif op == "UDiv":
            code = "(UDiv %s)" % ("true" if nk in ("int", "float") else "false")
        else:
            code = op
    return f"({code}, {coq_pb(*X)}, {hexf(float(c))}, {coq_pout(out)})"


# ---------------------------------------------------------------------------
def stepwise_reference(op, X, c):
    """image of every focal interval under the map; returns (sorted lows, sorted highs), 'error', or None (no reference)"""
    XL, XR = fr(X[0]), fr(X[1])
    cf = Fraction(c) if not isinstance(c, float) else Fraction(float(c))
    contains0 = XL[0] <= 0 <= XR[-1]
    exact = True
    if op in ("UAdd", "URAdd"):
        g = lambda v: v + cf
    elif op == "USub":
        g = lambda v: v - cf
    elif op == "URSub":
        g = lambda v: cf - v
    elif op in ("UMul", "URMul"):
        g = lambda v: v * cf
    elif op == "UDiv":
        if cf == 0:
            return "error"
        g = lambda v: v / cf
    elif op == "URDiv":
        if contains0:
            return "error"
        g = lambda v: cf / v
    elif op == "UNeg":
        g = lambda v: -v
    elif op == "URecip":
        if contains0:
            return "error"
        g = lambda v: 1 / v
    elif op == "exp":
        exact = False
        g = lambda v: math.exp(v)
    elif op == "log":
        if XL[0] <= 0:
            return "error"
        exact = False
        g = lambda v: math.log(v)
    elif op == "sqrt":
        if XL[0] < 0:
            return "error"
        exact = False
        g = lambda v: math.sqrt(v)
    elif op == "pow":
        if XL[0] > 0 and c != 0:
            exact = False
            g = lambda v: float(v) ** float(c)
        elif XR[-1] < 0 and float(c) == int(c) and c != 0:
            exact = False
            g = lambda v: float(v) ** int(c)
        else:
            return None
    lows, highs = [], []
    for l, r in zip(XL, XR):
        a, b = g(l if exact else float(l)), g(r if exact else float(r))
        lows.append(min(a, b))
        highs.append(max(a, b))
    return sorted(lows), sorted(highs), exact


def oracle(case, out):
    op, X, nk, c, _ = case
    ref = stepwise_reference(op, X, c)
    if ref is None:
        return None
    if ref == "error":
        return None if out[0] == "exc" else "an undefined operation (zero divisor / outside the domain) returns a p-box instead of raising"
    if out[0] != "ok":
        return f"defined operation raises {out[2]}"
    why = pbx.wf_problem(out[1], out[2], 200)
    if why:
        return "ill-formed result: " + why
    ulps = 8 if ref[2] else 64
    why = pbx.arrays_close(out[1], ref[0], ulps, 1e-300) or pbx.arrays_close(out[2], ref[1], ulps, 1e-300)
    return ("steps are not the images of the operand's steps: " + why) if why else None


def laws(chk, tier):
    """-(-P) = P, c - P = -(P - c), c / P = c * (1/P), P * 0 = 0, P / 0 raises"""
    from pyuncertainnumber.pba.pbox_abc import Staircase
    rng = chk.rng
    for _ in range(12 if tier == "quick" else 150):
        kind = rng.choice(pbx.KINDS)
        X = pbx.gen_bounds(rng, 200, kind, dy=True)
        p = Staircase(np.array(X[0]), np.array(X[1]))
        c = mk_number(rng.choice(NUM_KINDS), rng.choice([-3, -1, 2, 5]))
        chk.count("laws", key=("law", kind, type(c).__name__))
        site = "Pbox.laws"
        try:
            q = -(-p)
            if not (np.array_equal(q.left, p.left) and np.array_equal(q.right, p.right)):
                chk.report(site, "-(-P) differs from P", {"kind": "law", "law": "neg-involutive", "X": X})
            a, b = c - p, -(p - c)
            if not (np.allclose(a.left, b.left, rtol=1e-14, atol=0) and np.allclose(a.right, b.right, rtol=1e-14, atol=0)):
                chk.report(site, "c - P differs from -(P - c)", {"kind": "law", "law": "rsub", "X": X, "c": float(c)})
            z = p * 0
            if not (np.all(z.left == 0) and np.all(z.right == 0)):
                chk.report(site, "P * 0 is not the number 0", {"kind": "law", "law": "mul-zero", "X": X})
            z = 0 * p
            if not (np.all(z.left == 0) and np.all(z.right == 0)):
                chk.report(site, "0 * P is not the number 0", {"kind": "law", "law": "rmul-zero", "X": X})
            if not (X[0][0] <= 0 <= X[1][-1]):
                a, b = c / p, c * p.reciprocal()
                if not (np.array_equal(a.left, b.left) and np.array_equal(a.right, b.right)):
                    chk.report(site, "c / P differs from c * (1/P)", {"kind": "law", "law": "rtruediv", "X": X, "c": float(c)})
        except Exception as e:
            chk.report(site, f"law evaluation raises {type(e).__name__}: {e}", {"kind": "law", "X": X, "c": float(c)})
        for zero in (0, 0.0, np.float64(0.0), np.int64(0)):
            try:
                p / zero
                chk.report(site, f"P / {zero!r} does not raise", {"kind": "law", "law": "div-zero", "X": X})
            except Exception:
                pass   # any error is acceptable ("P / 0 is an error")


def route_equivalence(chk):
    """every public route to the same operation gives bit-identical bounds: operator / numpy ufunc (either operand order) / explicit method.
    The operator route is the one compared with the Coq model above; the others are tied to it here."""
    from pyuncertainnumber.pba.pbox_abc import Staircase
    import operator
    rng = chk.rng
    for kind in ("pos", "neg", "straddle", "touch", "steps"):
        X = pbx.gen_bounds(rng, 200, kind, dy=False)
        x = Staircase(np.array(X[0]), np.array(X[1]))
        for nk in NUM_KINDS:
            for c in ((2, -3) if nk in ("int", "npint") else (0.5, -1.5)):
                cc = mk_number(nk, c)
                routes = {
                    "add": [("x + c", lambda: x + cc), ("np.add(x, c)", lambda: np.add(x, cc)), ("x.add(c)", lambda: x.add(cc)), ("c + x", lambda: cc + x), ("np.add(c, x)", lambda: np.add(cc, x))],
                    "sub": [("x - c", lambda: x - cc), ("np.subtract(x, c)", lambda: np.subtract(x, cc)), ("x.sub(c)", lambda: x.sub(cc))],
                    "rsub": [("c - x", lambda: cc - x), ("np.subtract(c, x)", lambda: np.subtract(cc, x)), ("(-x) + c", lambda: (-x) + cc)],
                    "mul": [("x * c", lambda: x * cc), ("np.multiply(x, c)", lambda: np.multiply(x, cc)), ("x.mul(c)", lambda: x.mul(cc)), ("c * x", lambda: cc * x), ("np.multiply(c, x)", lambda: np.multiply(cc, x))],
                    "div": [("x / c", lambda: x / cc), ("np.true_divide(x, c)", lambda: np.true_divide(x, cc)), ("x.div(c)", lambda: x.div(cc))],
                }
                if kind in ("pos", "neg"):
                    routes["rdiv"] = [("c / x", lambda: cc / x), ("np.true_divide(c, x)", lambda: np.true_divide(cc, x)), ("c * x.reciprocal()", lambda: cc * x.reciprocal())]
                for name, rs in routes.items():
                    outs = []
                    for label, f in rs:
                        try:
                            r = f()
                            outs.append((label, (np.asarray(r.left, dtype=float).tobytes(), np.asarray(r.right, dtype=float).tobytes()) if hasattr(r, "left") else "returned " + type(r).__name__))
                        except Exception as e:
                            outs.append((label, "raises " + type(e).__name__))
                        chk.count("route-" + name, key=("route", name, label, kind, nk, c))
                    for label, o in outs[1:]:
                        if o != outs[0][1]:
                            chk.report(f"Pbox.route:{name}:{nk}", f"{label} differs from {outs[0][0]} (c = {c!r} as {nk}, {kind} p-box): " +
                                       (o if isinstance(o, str) else "different bounds") + (" vs " + outs[0][1] if isinstance(outs[0][1], str) else ""),
                                       {"kind": "route", "X": X, "c": c, "number_kind": nk, "routes": [outs[0][0], label]})
        un = [("exp", np.exp, x.exp), ("reciprocal", np.reciprocal, x.reciprocal)] if kind in ("pos", "neg") else [("exp", np.exp, x.exp)]
        if kind == "pos":
            un += [("log", np.log, x.log), ("sqrt", np.sqrt, x.sqrt)]
        for name, uf, meth in un:
            outs = []
            for label, f in ((f"x.{name}()", meth), (f"np.{name}(x)", lambda: uf(x))):
                try:
                    r = f()
                    outs.append((np.asarray(r.left, dtype=float).tobytes(), np.asarray(r.right, dtype=float).tobytes()) if hasattr(r, "left") else "returned " + type(r).__name__)
                except Exception as e:
                    outs.append("raises " + type(e).__name__)
                chk.count("route-" + name, key=("route", name, label, kind))
            if outs[0] != outs[1]:
                chk.report(f"Pbox.route:{name}", f"np.{name}(x) differs from x.{name}() on a {kind} p-box", {"kind": "route", "X": X, "routes": [name]})


def body(chk):
    pbx.patch_fast_moments()
    pr = chk.do_proofs()
    cases = gen_cases(chk, chk.tier)
    outs = [run_impl(c) for c in cases]
    chunks = []
    CA = 6
    for s in range(0, len(cases), CA):
        items = [coq_case(c, o) for c, o in zip(cases[s:s + CA], outs[s:s + CA])]
        chunks.append(("Definition cases : list ucase := " + coq_list(items) + ".\nDefinition verdicts := map ucheck cases.\n", len(items)))
    exact, rounded, bad, log = vlib.run_coq_cases("C06", chunks, "From PUN Require Import Model.Interval Model.PboxArith Corr.CorrPbox Corr.CorrC06.\n", jobs=14)
    chk.corr = {"cases": len(cases), "bit_exact": exact, "rounded": rounded, "disagree": len(bad)}
    if log:
        chk.corr["log"] = log[-600:]
    for c, o in zip(cases, outs):
        chk.count(f"{c[0]}-{c[2]}", key=(c[0], c[2], c[4], (c[3] > 0) - (c[3] < 0)))
        why = oracle(c, o)
        if why:
            chk.report(f"Pbox.{c[0]}:{c[2]}:{pbx.sign_of(*c[1])}", why, {"kind": "oracle", "op": c[0], "X": c[1], "number_kind": c[2], "c": c[3], "observed": o[:1] + (o[2:3] if o[0] != "ok" else ())})
    laws(chk, chk.tier)
    route_equivalence(chk)
    chk.sample({"op": cases[0][0], "c": cases[0][3], "number_kind": cases[0][2], "X_left_head": cases[0][1][0][:3], "impl": (outs[0][0], outs[0][1][:3] if outs[0][0] == "ok" else outs[0][1:])})
    chk.sample({"op": cases[5][0], "c": cases[5][3], "kind": cases[5][4]})
    for i in bad[:3]:
        c, o = cases[i], outs[i]
        why = oracle(c, o)
        chk.report(f"correspondence:{c[0]}:{c[2]}", why or "model and implementation disagree",
                   {"kind": "correspondence", "op": c[0], "X": c[1], "c": c[3], "number_kind": c[2], "observed": o[:1], "coq_log": log[-400:]}, found_input=bool(why))
    if not pr["ok"]:
        if not chk.violations:
            chk.report("proof", "proof obligation no longer checks", chk.proof_broken_replay(), found_input=False)
        else:
            chk.violations[0][0]["proof_broken"] = chk.proof_broken_replay()


RULE = ("cases = (operation, p-box of 200 steps, constant): P+c, c+P, P-c, c-P, P*c, c*P, P/c, c/P, -P, reciprocal, exp/log/sqrt (method and numpy ufunc), "
        "P**c; constants negative/zero/positive as int, float, np.float64, np.int64; p-box kinds {pos,neg,straddle,zero-touching,precise,interval,step-shaped}; "
        "compared with the Coq model (bit-exact) and with the exact step-wise image reference; laws checked on separate operands. "
        "distinct key = (operation, number kind, p-box kind, sign of c)")
TB = ["hand-written Model/Pbox.v (pbox_number_ops, __neg__, reciprocal, _unary_template, Staircase constructor incl. the lexicographic list comparison in left_right_switch)",
      "numpy exp/log/sqrt/power values enter the Coq run as recorded oracle arrays",
      "zero-straddling P**c (interval power + stacking) is not modelled in Coq",
      "Staircase moments use the ECDF fallback in the harness process (LP disabled for speed)"]

if __name__ == "__main__":
    chk = vlib.main_wrapper("C06", body)
    sys.exit(chk.finish(rule=RULE, trusted_base=TB))
