"""Fail-closed translator: pba/operation.py  frechet_op, perfect_op, opposite_op, independent_op, vectorized_cartesian_op  ->  Gen/GenKernels.v

The kernels are numpy array programs over the four bound arrays x.left, x.right, y.left, y.right and the binary operation `op`.
Each recognised numpy construct is mapped to one combinator of Base/ArrayOps.v (its meaning is stated there once):

    a[IDX]                          gather a IDX                      IDX an np.arange(...)
    np.arange(A, B) / (A, B, -1)    arange_up A B / arange_down A B   integer expressions over i, n (as Z)
    op(U, V)                        map2 op U V                       elementwise on equal-length arrays
    np.min(U) / np.max(U)           amin U / amax U
    np.flip(U)                      rev U
    np.minimum.reduce([a,b,c,d])    emin4 a b c d     (np.maximum.reduce likewise)
    np.sort(U), U.sort()            nsort U
    vectorized_cartesian_op(a,b,op) the translated function of that name (op(a[:, np.newaxis], b).ravel() = cartesian op a b)
    for i in range(0, n): T[i] = E  T = map (fun i => E) (seq 0 n)    T first created by np.empty(n)
    n = x.steps                     n = length xl

Anything else aborts the translation (and with it the proofs that mention the generated definitions).
"""
import ast


class Unsupported(Exception):
    pass


ARR = {"x.left": "xl", "x.right": "xr", "y.left": "yl", "y.right": "yr"}


class Tr:
    def __init__(self):
        self.arrays = {}        # python name -> gallina name (list N)
        self.idx = {}           # python name -> gallina term (list nat)
        self.ints = {"n"}       # names of integer variables
        self.loopvar = None

    # integer expressions, emitted over Z
    def z(self, node):
        if isinstance(node, ast.Constant) and type(node.value) is int:
            return f"({node.value})%Z"
        if isinstance(node, ast.Name) and (node.id in self.ints or node.id == self.loopvar):
            return f"(Z.of_nat {node.id})"
        if isinstance(node, ast.UnaryOp) and isinstance(node.op, ast.USub) and isinstance(node.operand, ast.Constant):
            return f"(-{node.operand.value})%Z"
        if isinstance(node, ast.BinOp) and isinstance(node.op, (ast.Add, ast.Sub)):
            return f"({self.z(node.left)} {'+' if isinstance(node.op, ast.Add) else '-'} {self.z(node.right)})%Z"
        raise Unsupported("integer expression " + ast.unparse(node))

    def index(self, node):
        if isinstance(node, ast.Name) and node.id in self.idx:
            return self.idx[node.id]
        if isinstance(node, ast.Call) and ast.unparse(node.func) == "np.arange" and not node.keywords:
            a = node.args
            if len(a) == 2:
                return f"(arange_up {self.z(a[0])} {self.z(a[1])})"
            if len(a) == 3 and ast.unparse(a[2]) == "-1":
                return f"(arange_down {self.z(a[0])} {self.z(a[1])})"
        raise Unsupported("index expression " + ast.unparse(node))

    def arr(self, node):
        src = ast.unparse(node)
        if src in ARR:
            return ARR[src]
        if isinstance(node, ast.Name) and node.id in self.arrays:
            return self.arrays[node.id]
        if isinstance(node, ast.Subscript):
            return f"(gather {self.arr(node.value)} {self.index(node.slice)})"
        if isinstance(node, ast.Call):
            f = ast.unparse(node.func)
            if f == "op" and len(node.args) == 2:
                return f"(map2 op {self.arr(node.args[0])} {self.arr(node.args[1])})"
            if f == "np.flip" and len(node.args) == 1:
                return f"(rev {self.arr(node.args[0])})"
            if f == "np.sort" and len(node.args) == 1:
                return f"(nsort N {self.arr(node.args[0])})"
            if f in ("np.minimum.reduce", "np.maximum.reduce") and len(node.args) == 1 and isinstance(node.args[0], ast.List) and len(node.args[0].elts) == 4:
                els = " ".join(self.arr(e) for e in node.args[0].elts)
                return f"({'emin4' if 'minimum' in f else 'emax4'} N {els})"
            if f == "vectorized_cartesian_op" and len(node.args) == 3 and ast.unparse(node.args[2]) == "op":
                return f"(gen_vectorized_cartesian_op N op {self.arr(node.args[0])} {self.arr(node.args[1])})"
        raise Unsupported("array expression " + src[:80])

    def scalar(self, node):
        if isinstance(node, ast.Call) and ast.unparse(node.func) in ("np.min", "np.max") and len(node.args) == 1:
            return f"({'amin' if ast.unparse(node.func) == 'np.min' else 'amax'} N {self.arr(node.args[0])})"
        raise Unsupported("scalar expression " + ast.unparse(node)[:80])


def body_of(fn):
    return [s for s in fn.body if not (isinstance(s, ast.Expr) and isinstance(s.value, ast.Constant))]


def translate_fn(fn):
    names = [a.arg for a in fn.args.args]
    if names != ["x", "y", "op"]:
        raise Unsupported(f"{fn.name}: signature {names}")
    tr = Tr()
    lets, empties, ret = [], set(), None
    for st in body_of(fn):
        src = ast.unparse(st)
        if isinstance(st, ast.Assert) and src.startswith("assert x.steps == y.steps"):
            continue
        if isinstance(st, ast.Assign) and len(st.targets) == 1:
            tgt = st.targets[0]
            if isinstance(tgt, ast.Name):
                if src == "n = x.steps":
                    lets.append(("n", "length xl"))
                    continue
                if ast.unparse(st.value) == "np.empty(n)":
                    empties.add(tgt.id)
                    continue
                term = tr.arr(st.value)
                tr.arrays[tgt.id] = "v_" + tgt.id
                lets.append(("v_" + tgt.id, term))
                continue
            if isinstance(tgt, ast.Tuple) and all(isinstance(e, ast.Name) for e in tgt.elts) and isinstance(st.value, ast.Tuple) and len(tgt.elts) == len(st.value.elts):
                terms = [tr.arr(v) for v in st.value.elts]          # the right-hand side is evaluated before any name is bound
                for e, t in zip(tgt.elts, terms):
                    lets.append(("v_" + e.id, t))
                    tr.arrays[e.id] = "v_" + e.id
                continue
        if isinstance(st, ast.For) and isinstance(st.target, ast.Name) and ast.unparse(st.iter) == "range(0, n)" and not st.orelse:
            tr.loopvar = st.target.id
            per = {}
            for b in st.body:
                if isinstance(b, ast.Assign) and len(b.targets) == 1:
                    t = b.targets[0]
                    if isinstance(t, ast.Name):                     # an index array
                        tr.idx[t.id] = tr.index(b.value)
                        continue
                    if isinstance(t, ast.Subscript) and isinstance(t.value, ast.Name) and t.value.id in empties and ast.unparse(t.slice) == tr.loopvar:
                        per[t.value.id] = tr.scalar(b.value)
                        continue
                raise Unsupported(f"{fn.name}: loop statement {ast.unparse(b)[:80]}")
            if set(per) != empties:
                raise Unsupported(f"{fn.name}: the loop fills {sorted(per)}, created {sorted(empties)}")
            for name in sorted(per):
                lets.append(("v_" + name, f"map (fun {tr.loopvar} : nat => {per[name]}) (seq 0 n)"))
                tr.arrays[name] = "v_" + name
            tr.loopvar, tr.idx = None, {}
            continue
        if isinstance(st, ast.Expr) and isinstance(st.value, ast.Call) and isinstance(st.value.func, ast.Attribute) and st.value.func.attr == "sort" \
                and isinstance(st.value.func.value, ast.Name) and st.value.func.value.id in tr.arrays and not st.value.args:
            nm = tr.arrays[st.value.func.value.id]
            lets.append((nm, f"nsort N {nm}"))                      # in-place sort: the name now denotes the sorted array
            continue
        if isinstance(st, ast.Return) and isinstance(st.value, ast.Tuple) and len(st.value.elts) == 2:
            ret = tuple(tr.arr(e) for e in st.value.elts)
            continue
        raise Unsupported(f"{fn.name}: statement {src[:80]}")
    if ret is None:
        raise Unsupported(f"{fn.name}: no return of two arrays")
    body = "".join(f"  let {n} := {t} in\n" for n, t in lets)
    return (f"Definition gen_{fn.name} (N : Num) (op : N -> N -> N) (xl xr yl yr : list N) : list N * list N :=\n{body}  ({ret[0]}, {ret[1]}).\n")


def translate(path):
    tree = ast.parse(open(path).read())
    fns = {n.name: n for n in tree.body if isinstance(n, ast.FunctionDef)}
    out = [f"(* generated by tools/translate_kernels.py from {path}; do not edit *)", "From Coq Require Import List ZArith.",
           "From PUN Require Import Base.Num Model.Interval Model.Pbox Model.ArrayOps.", "Import ListNotations.", ""]
    vc = fns.get("vectorized_cartesian_op")
    if vc is None or [a.arg for a in vc.args.args] != ["a", "b", "op"] or [ast.unparse(s) for s in body_of(vc)] != ["return op(a[:, np.newaxis], b).ravel()"]:
        raise Unsupported("vectorized_cartesian_op: " + (ast.unparse(vc)[:120] if vc else "not found"))
    out.append("(* op(a[:, np.newaxis], b).ravel(): row-major, a is the slow index *)\n"
               "Definition gen_vectorized_cartesian_op (N : Num) (op : N -> N -> N) (a b : list N) : list N := cartesian op a b.\n")
    for name in ("frechet_op", "perfect_op", "opposite_op", "independent_op"):
        if name not in fns:
            raise Unsupported(name + " not found")
        out.append(translate_fn(fns[name]))
    return "\n".join(out)


if __name__ == "__main__":
    import sys
    print(translate(sys.argv[1]))
