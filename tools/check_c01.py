#!/venv/bin/python
"""C01 - Interval + - * / return exactly the set image of the operands."""
import itertools
import math
import os
import sys
from fractions import Fraction

sys.path.insert(0, os.path.dirname(os.path.abspath(__file__)))
import vlib
from vlib import hexf, flist, coq_list

vlib.setup_impl_path()
import numpy as np

OPS = ["Add", "Sub", "Mul", "Div"]
PYOP = {"Add": lambda a, b: a + b, "Sub": lambda a, b: a - b, "Mul": lambda a, b: a * b, "Div": lambda a, b: a / b}
EXC_CODE = {"ZeroDivisionError": 0, "AssertionError": 1, "ValueError": 2, "TypeError": 3, "UnboundLocalError": 4,
            "IndexError": 5}


def mag(rng, wide=False):
    if wide:
        return 10 ** rng.uniform(-150, 150)
    r = rng.random()
    if r < 0.15:
        return float(rng.randint(1, 9))
    if r < 0.3:
        return rng.randint(1, 64) / 8.0
    return 10 ** rng.uniform(-3, 3)


def sign_class(rng, kind, wide=False):
    """nine sign classes of an interval"""
    a = mag(rng, wide)
    b = a + mag(rng, wide)
    if b == a:
        b = a * 2
    return {0: (a, b), 1: (-b, -a), 2: (-a, b), 3: (0.0, b), 4: (-b, 0.0), 5: (0.0, 0.0), 6: (a, a), 7: (-a, -a),
            8: (-a, a)}[kind]


def gen_interval(rng, shape, wide=False, kinds=None):
    """shape: '0' | '1' | 'k'  -> (shape, [(lo,hi)...], classes)"""
    n = 1 if shape in "01" else rng.randint(2, 5)
    ks = [rng.randrange(9) if kinds is None else rng.choice(kinds) for _ in range(n)]
    return {"kind": "I", "shape": shape, "els": [sign_class(rng, k, wide) for k in ks], "cls": ks}


def gen_number(rng, kind):
    c = rng.choice([0, 0, 1, -1, 2, -3]) if rng.random() < 0.35 else (rng.choice([-1, 1]) * mag(rng))
    if kind in ("int", "npint"):
        c = int(round(c)) if abs(c) >= 1 else rng.choice([0, 1, -1, 2, -2])
    o = {"kind": kind, "c": c}
    # every numpy scalar kind the library lists as a number: the operand's VALUE is what counts, whatever its storage type
    if kind == "npint" and rng.random() < 0.6:
        dt = rng.choice(INT_DTYPES)
        o["dtype"] = dt
        o["c"] = fit_int(c, dt)
    elif kind in ("npfloat", "arr0") and rng.random() < 0.3:
        o["dtype"] = "float32"
        o["c"] = float(np.float32(c))
    return o


INT_DTYPES = ["int8", "int16", "int32", "uint8", "uint16", "uint32", "uint64"]
INT_LIMIT = {"int8": 100, "uint8": 200, "int16": 30000, "uint16": 60000}


def fit_int(c, dt):
    c = int(c)
    lim = INT_LIMIT.get(dt, 10 ** 9)
    c = max(-lim, min(lim, c))
    return abs(c) if dt.startswith("u") else c


def gen_array(rng, k=None):
    k = k or rng.randint(1, 5)
    o = {"kind": "arr", "l": [rng.choice([0.0, 1.0, -2.0]) if rng.random() < 0.25 else rng.choice([-1, 1]) * mag(rng)
                              for _ in range(k)]}
    r = rng.random()
    if r < 0.25:      # integer storage (signed and unsigned)
        dt = rng.choice(INT_DTYPES + ["int64"])
        o["dtype"] = dt
        o["l"] = [float(fit_int(round(v), dt)) for v in o["l"]]
    # (float32 arrays are left out: numpy 1.x evaluates a 0-d float64 endpoint with a float32 array in single precision, so the result
    #  carries float32 rounding - the operand's own precision, which the property's rounding clause allows; see DESIGN 10.6 round 7)
    return o


def build(o):
    from pyuncertainnumber.pba.intervals.number import Interval as I
    k = o["kind"]
    if k == "I":
        lo = [e[0] for e in o["els"]]
        hi = [e[1] for e in o["els"]]
        if o["shape"] == "0":
            return I(lo[0], hi[0])
        if o["shape"] == "2d":
            return I(np.array(lo).reshape(o["dims"]), np.array(hi).reshape(o["dims"]))
        return I(lo, hi)
    if k == "int":
        return int(o["c"])
    if k == "float":
        return float(o["c"])
    if k == "npfloat":
        return getattr(np, o.get("dtype", "float64"))(o["c"])
    if k == "npint":
        return getattr(np, o.get("dtype", "int64"))(o["c"])
    if k == "arr0":
        return np.array(float(o["c"]), dtype=o.get("dtype", "float64"))
    if k == "arr":
        return np.array(o["l"], dtype=o.get("dtype", "float64"))
    if k == "arr2d":
        return np.array(o["l"], dtype=float).reshape(o["dims"])
    if k == "bool":
        return True
    if k == "str":
        return "s"
    raise ValueError(k)


def coq_operand(o):
    k = o["kind"]
    if k == "I":
        z = "true" if o["shape"] == "0" else "false"
        return f"OInt FN ({z}, {coq_list(['(%s, %s)' % (hexf(a), hexf(b)) for a, b in o['els']])})"
    if k in ("int", "float", "npfloat", "npint", "arr0"):
        return f"ONum FN {hexf(float(o['c']))}"
    if k == "arr":
        return f"OArr FN {flist(o['l'])}"
    return "OOther"


def run_impl(case):
    op, a, b = case
    try:
        r = PYOP[op](build(a), build(b))
    except Exception as e:
        return ("exc", type(e).__name__)
    if type(r).__name__ != "Interval":
        return ("exc", "TypeError")
    lo, hi = np.asarray(r.lo, dtype=float), np.asarray(r.hi, dtype=float)
    return ("ok", lo.shape, [float(x) for x in lo.ravel()], [float(x) for x in hi.ravel()])


def coq_out(out):
    if out[0] == "exc":
        return f"IExc {EXC_CODE.get(out[1], 9)}"
    z = "true" if out[1] == () else "false"
    return f"IOk {z} {coq_list(['(%s, %s)' % (hexf(a), hexf(b)) for a, b in zip(out[2], out[3])])}"


# ---------------------------------------------------------------------------
# property oracle on the implementation: exact rational corner hull
# ---------------------------------------------------------------------------
def as_elems(o):
    """-> (shape tuple, list of (lo,hi) Fractions) or None for unsupported kinds"""
    k = o["kind"]
    if k == "I":
        shp = () if o["shape"] == "0" else (tuple(o["dims"]) if o["shape"] == "2d" else (len(o["els"]),))
        return shp, [(Fraction(a), Fraction(b)) for a, b in o["els"]]
    if k in ("int", "float", "npfloat", "npint", "arr0"):
        return (), [(Fraction(o["c"]), Fraction(o["c"]))]
    if k == "arr":
        return (len(o["l"]),), [(Fraction(x), Fraction(x)) for x in o["l"]]
    if k == "arr2d":
        return tuple(o["dims"]), [(Fraction(x), Fraction(x)) for x in o["l"]]
    return None


def expected(op, a, b):
    """-> ('exc','ZeroDivisionError') | ('ok', shape, lo, hi) | None if shapes do not broadcast / kind unsupported"""
    ea, eb = as_elems(a), as_elems(b)
    if ea is None or eb is None:
        return None
    try:
        shp = np.broadcast_shapes(ea[0], eb[0])
    except ValueError:
        return None
    n = int(np.prod(shp)) if shp else 1
    ia = np.broadcast_to(np.arange(len(ea[1])).reshape(ea[0]), shp).ravel()
    ib = np.broadcast_to(np.arange(len(eb[1])).reshape(eb[0]), shp).ravel()
    if op == "Div" and any(lo <= 0 <= hi for lo, hi in eb[1]):
        return ("exc", "ZeroDivisionError")
    lo, hi = [], []
    for i, j in zip(ia, ib):
        (sl, sh), (ol, oh) = ea[1][i], eb[1][j]
        f = {"Add": lambda x, y: x + y, "Sub": lambda x, y: x - y, "Mul": lambda x, y: x * y, "Div": lambda x, y: x / y}[op]
        cs = [f(sl, ol), f(sl, oh), f(sh, ol), f(sh, oh)]
        lo.append(min(cs))
        hi.append(max(cs))
    return ("ok", tuple(shp), lo, hi)


def fr_close(x, fr, ulps=4):
    """float x within `ulps` ulp of the exact rational fr"""
    if math.isinf(x) or math.isnan(x):
        return False
    ref = float(fr)
    if math.isinf(ref):
        return False
    tol = ulps * math.ulp(max(abs(ref), 5e-324))
    return abs(Fraction(x) - fr) <= Fraction(tol)


def oracle(case, out):
    """returns None if the property holds on this case, else a description"""
    op, a, b = case
    exp = expected(op, a, b)
    if exp is None:
        return None
    if exp[0] == "exc":
        if out[0] != "exc" or out[1] != "ZeroDivisionError":
            return f"divisor contains zero but the result is {out[:2]} instead of ZeroDivisionError"
        return None
    if out[0] == "exc":
        return f"valid operands raise {out[1]}"
    if tuple(out[1]) != exp[1]:
        return f"result shape {out[1]} differs from the broadcast shape {exp[1]}"
    for k, (l, h, el, eh) in enumerate(zip(out[2], out[3], exp[2], exp[3])):
        if not (fr_close(l, el) and fr_close(h, eh)):
            return f"element {k}: got [{l!r}, {h!r}], exact corner hull is [{float(el)!r}, {float(eh)!r}]"
    return None


def site_of(case):
    op, a, b = case
    return f"Interval.{op}:{a['kind']}:{b['kind']}"


def gen_cases(chk, tier):
    rng = chk.rng
    cases = []
    num_kinds = ["int", "float", "npfloat", "npint", "arr0"]
    # 1. all 9x9 sign classes x 4 ops, scalar-scalar, plus shape pairings
    reps = 1 if tier == "quick" else 6
    for _ in range(reps):
        for ka, kb, op in itertools.product(range(9), range(9), OPS):
            a = {"kind": "I", "shape": "0", "els": [sign_class(rng, ka)], "cls": [ka]}
            b = {"kind": "I", "shape": "0", "els": [sign_class(rng, kb)], "cls": [kb]}
            cases.append(("ss-classes", (op, a, b)))
    n_shape = 1500 if tier == "quick" else 20000
    for _ in range(n_shape):
        op = rng.choice(OPS)
        sa, sb = rng.choice("01k"), rng.choice("01k")
        a, b = gen_interval(rng, sa), gen_interval(rng, sb)
        if sa == "k" and sb == "k" and rng.random() < 0.85:
            n = len(a["els"])
            b = {"kind": "I", "shape": "k", "els": [sign_class(rng, rng.randrange(9)) for _ in range(n)], "cls": []}
        if op == "Div" and rng.random() < 0.6:   # mostly valid divisors
            b["els"] = [sign_class(rng, rng.choice([0, 1, 6, 7])) for _ in b["els"]]
        cases.append((f"II-{sa}{sb}", (op, a, b)))
    # 2. number / ndarray operands on either side
    n_num = 1500 if tier == "quick" else 20000
    for _ in range(n_num):
        op = rng.choice(OPS)
        iv = gen_interval(rng, rng.choice("01k"))
        if rng.random() < 0.7:
            nk = rng.choice(num_kinds)
            other = gen_number(rng, nk)
        else:
            nk = "arr"
            other = gen_array(rng, len(iv["els"]) if (iv["shape"] == "k" and rng.random() < 0.8) else None)
        left = rng.random() < 0.5
        if op == "Div" and left and rng.random() < 0.6:
            iv["els"] = [sign_class(rng, rng.choice([0, 1, 6, 7])) for _ in iv["els"]]
        cases.append((f"{'N' if left else 'I'}{'I' if left else 'N'}-{nk}-{iv['shape']}", (op, other, iv) if left else (op, iv, other)))
    # 3. malformed / foreign stream
    for _ in range(60 if tier == "quick" else 400):
        op = rng.choice(OPS)
        iv = gen_interval(rng, rng.choice("01k"))
        other = {"kind": rng.choice(["bool", "str"])}
        cases.append(("foreign", (op, iv, other) if rng.random() < 0.5 else (op, other, iv)))
    # 4. wide magnitudes (finite results): agreement + oracle
    for _ in range(300 if tier == "quick" else 4000):
        op = rng.choice(OPS)
        a, b = gen_interval(rng, "0", wide=True), gen_interval(rng, "0", wide=True)
        cases.append(("wide", (op, a, b)))
    return cases


def gen_2d(chk, tier):
    rng = chk.rng
    out = []
    for _ in range(150 if tier == "quick" else 1500):
        op = rng.choice(OPS)
        dims = (rng.randint(1, 3), rng.randint(2, 3))
        n = dims[0] * dims[1]
        a = {"kind": "I", "shape": "2d", "dims": dims, "els": [sign_class(rng, rng.randrange(9)) for _ in range(n)]}
        r = rng.random()
        if r < 0.4:
            b = {"kind": "I", "shape": "2d", "dims": dims, "els": [sign_class(rng, rng.randrange(9)) for _ in range(n)]}
        elif r < 0.6:
            b = gen_interval(rng, rng.choice("01"))
        elif r < 0.8:
            b = gen_number(rng, rng.choice(["int", "float", "npfloat"]))
        else:
            b = {"kind": "arr2d", "dims": dims, "l": [rng.choice([-1, 1]) * mag(rng) for _ in range(n)]}
        if op == "Div" and b["kind"] == "I" and rng.random() < 0.7:
            b["els"] = [sign_class(rng, rng.choice([0, 1, 6, 7])) for _ in b["els"]]
        out.append(("2d", (op, a, b) if rng.random() < 0.6 or b["kind"] == "I" else (op, b, a)))
    return out


def body(chk):
    tier = chk.tier
    pr = chk.do_proofs()
    cases = gen_cases(chk, tier)
    outs = [run_impl(c) for _, c in cases]
    # correspondence inside Coq
    chunks = []
    CH = 400
    for s in range(0, len(cases), CH):
        items = []
        for (_, (op, a, b)), out in zip(cases[s:s + CH], outs[s:s + CH]):
            items.append(f"({op}, {coq_operand(a)}, {coq_operand(b)}, {coq_out(out)})")
        text = "Definition cases : list case := " + coq_list(items).replace("; (", ";\n (") + ".\nDefinition verdicts := map check cases.\n"
        chunks.append((text, len(items)))
    exact, rounded, bad, log = vlib.run_coq_cases("C01", chunks, "From PUN Require Import Model.Interval Corr.CorrC01.\n")
    chk.corr = {"cases": len(cases), "bit_exact": exact, "rounded": rounded, "disagree": len(bad)}
    if log:
        chk.corr["log"] = log[-800:]
    # oracle on the implementation
    n_viol = 0
    all_cases = cases + gen_2d(chk, tier)
    outs_all = outs + [run_impl(c) for _, c in all_cases[len(cases):]]
    exc_kinds = {}
    for (stratum, case), out in zip(all_cases, outs_all):
        op, a, b = case
        key = (op, a["kind"], b["kind"], a.get("shape"), b.get("shape"), tuple(a.get("cls", [])[:2]), tuple(b.get("cls", [])[:2]))
        chk.count(stratum, key=key, nontrivial=(stratum != "foreign"))
        if out[0] == "exc":
            exc_kinds[out[1]] = exc_kinds.get(out[1], 0) + 1
        why = oracle(case, out)
        if why:
            n_viol += 1
            chk.report(site_of(case), why, {"kind": "oracle", "op": op, "a": a, "b": b, "observed": out,
                                            "expected": str(expected(op, a, b))[:400],
                                            "replay_cmd": "/venv/bin/python tools/check_c01.py --replay <this file>"})
    # ---- results that are HELD while further operations run, and results fed into the next operation (same shapes throughout):
    # every operation of a batch is evaluated first, the values are read and decided only afterwards
    rng = chk.rng
    for rd in range(12 if tier == "quick" else 120):
        k = rng.randint(2, 4)
        shape = rng.choice(["k", "2d"])
        dims = (rng.randint(1, 2), k)

        def arr_interval(kinds):
            if shape == "k":
                return {"kind": "I", "shape": "k", "els": [sign_class(rng, rng.choice(kinds)) for _ in range(k)]}
            return {"kind": "I", "shape": "2d", "dims": dims, "els": [sign_class(rng, rng.choice(kinds)) for _ in range(dims[0] * dims[1])]}
        batch, held = [], []
        # a small pool of operand OBJECTS used by several operations in a row (an operation must leave its operands as they were)
        pool = [arr_interval(range(9)), arr_interval([0, 1, 6, 7]), arr_interval(range(9))]
        objs = [build(d) for d in pool]
        for j in range(4):
            op = rng.choice(["Mul", "Div", "Mul", "Add", "Sub"])
            ia, ib = rng.randrange(3), (1 if op == "Div" else rng.randrange(3))
            a, b = pool[ia], pool[ib]
            try:
                held.append(PYOP[op](objs[ia], objs[ib]))
                batch.append((op, a, b))
            except Exception as e:
                chk.report(f"Interval.{op}:held", f"valid operands raise {type(e).__name__}", {"kind": "oracle", "op": op, "a": a, "b": b})
        # a chain: the first held result is an operand of a further operation
        if held:
            op2 = rng.choice(["Mul", "Div", "Sub"])
            c = arr_interval([0, 1, 6, 7] if op2 == "Div" else range(9))
            r0 = held[0]
            a0 = {"kind": "I", "shape": shape, "dims": dims, "els": list(zip([float(x) for x in np.asarray(r0.lo).ravel()], [float(x) for x in np.asarray(r0.hi).ravel()]))}
            try:
                held.append(PYOP[op2](r0, build(c)))
                batch.append((op2, a0, c))
            except Exception as e:
                chk.report(f"Interval.{op2}:chain", f"valid operands raise {type(e).__name__}", {"kind": "oracle", "op": op2, "a": a0, "b": c})
        for j, (case, r) in enumerate(zip(batch, held)):
            lo, hi = np.asarray(r.lo, dtype=float), np.asarray(r.hi, dtype=float)
            out = ("ok", lo.shape, [float(x) for x in lo.ravel()], [float(x) for x in hi.ravel()])
            chk.count("held-results", key=("held", rd, j))
            why = oracle(case, out)
            if why:
                chk.report(f"Interval.{case[0]}:held", f"operation {j + 1} of {len(batch)} evaluated in a row on array operands of one shape, values read after the last one: {why}",
                           {"kind": "oracle", "sequence": [{"op": c_[0], "a": c_[1], "b": c_[2]} for c_ in batch], "index": j, "observed": out})
                break
    for s in [0, 400, 900, 2500]:
        if s < len(cases):
            chk.sample({"op": cases[s][1][0], "a": cases[s][1][1], "b": cases[s][1][2], "impl": outs[s]})
    chk.cov["exception_kinds"] = exc_kinds
    # disagreements model vs implementation
    if bad:
        for i in bad[:3]:
            stratum, case = cases[i]
            why = oracle(case, outs[i])
            chk.report("correspondence:" + site_of(case), why or "model and implementation disagree",
                       {"kind": "correspondence", "stratum": stratum, "case": case, "observed": outs[i], "coq_log": log[-600:]},
                       found_input=bool(why))
    if not pr["ok"] and not chk.violations:
        chk.report("proof", "proof obligation no longer checks", chk.proof_broken_replay(), found_input=False)
    elif not pr["ok"]:
        chk.notes.append("proof broken: " + str(pr.get("failed_at")))
        chk.violations[0][0]["proof_broken"] = chk.proof_broken_replay()


RULE = ("cases = (operator, left operand, right operand); strata: all 9x9 sign classes x 4 ops scalar-scalar, shape pairings "
        "()/(1,)/(k,) of Interval x Interval, number kinds {int,float,np.float64/float32,np.int8..uint64,0-d array,ndarray of float or (un)signed integer dtype} on either side, "
        "foreign operands, wide magnitudes, 2-d arrays (oracle only); distinct key = (op, operand kinds, shapes, leading sign classes); "
        "foreign-operand cases are counted as trivial")
TB = ["translator tools/translate_arith.py (fail-closed ast subset) regenerating Gen/GenArith.v on every run",
      "hand-written Model/Interval.v for number.py operators, tied by in-Coq differential run (PrimFloat, vm_compute) with 16-ulp agreement rule",
      "Python exact-Fraction oracle (exhibits failures only)",
      "IEEE rounding is the only difference assumed between the RN theorems and the FN run",
      "numpy broadcasting / operator protocol modelled for shapes (), (1,), (k,)"]


def replay(path):
    import json
    r = json.load(open(path))
    case = (r["op"], r["a"], r["b"])
    out = run_impl(case)
    print("observed:", out)
    print("oracle:", oracle(case, out))


if __name__ == "__main__":
    if len(sys.argv) > 2 and sys.argv[1] == "--replay":
        replay(sys.argv[2])
        sys.exit(0)
    chk = vlib.main_wrapper("C01", body)
    sys.exit(chk.finish(rule=RULE, trusted_base=TB))
