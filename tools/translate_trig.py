"""Fail-closed translator: the elementary functions of pba/intervals/methods.py  ->  Gen/GenTrig.v

Translated statement by statement from the working tree (scalar Interval operand = a pair of numbers; an array operand = the same
function applied per element, numpy masks becoming per-element booleans):

    exp, log, sqrt                       monotone functions (the non-Interval guard is recognised and skipped)
    sin, cos, tan                        the CORA case tables on the endpoints reduced with %  (scalar forms)
    sin_vector, cos_vector               the masked-assignment forms (one element)

Python construct                         Gallina
    k (int literal), -1                  nzero / none / nofZ N k
    numpy_pi                             pi                      (Section variable: numpy.pi)
    a + b, a - b, a * b, a / b           nadd / nsub / nmul / ndiv
    a % m                                fmod a m                (Section variable: float remainder with the sign of m)
    numpy_sin(a) .. numpy_exp(a)         fsin a .. fexp a        (Section variables: libm)
    x.lo, x.hi, lo(x), hi(x)             fst x, snd x
    width(x)                             snd x - fst x           (number.width is checked to be `hi(x) - lo(x)`)
    Interval(a, b)  bound to a name      the pair (a, b)         (constant domains)
    contain(D, y)                        within D y              (methods.contain is checked to be (lo(x) <= lo(y)) & (hi(x) >= hi(y)))
    min(a, b), max(a, b) on numbers      nmin a b, nmax a b      (methods.min / max on non-Intervals are numpy.min / max of the pair)
    a <= b, a < b, a > b, a >= b         nleb a b, nltb a b, nltb b a, nleb b a
    c & d, c | d, ~c                     c && d, c || d, negb c
    if c: return Interval(a, b)          if c then mkI a b else <rest>        (mkI = the constructor assertion lo <= hi)
    falling off the end                  Raise OtherExn           (the Python function returns None)
    v = w.copy();  v[m] = e[m]           let v := if m then e else v          (masked assignment, one element)
    if numpy.all(m): return ...          skipped, after checking that every later mask is a conjunction with ~m
Anything else aborts (the generated file then does not compile and every proof that depends on it breaks).
"""
import ast
import os


class Unsupported(Exception):
    pass


LIBM = {"numpy_sin": "fsin", "numpy_cos": "fcos", "numpy_tan": "ftan", "numpy_exp": "fexp"}
ATTR_LIBM = {"numpy.log": "flog", "numpy.sqrt": "(nsqrt N)"}
ALIASES = {"numpy_sin": "numpy.sin", "numpy_cos": "numpy.cos", "numpy_tan": "numpy.tan", "numpy_exp": "numpy.exp",
           "numpy_pi": "numpy.pi", "numpy_inf": "numpy.inf"}
HELPERS = {
    "contain": "def contain(x: Interval, y: Interval):\n    return (lo(x) <= lo(y)) & (hi(x) >= hi(y))",
    "is_Interval": "def is_Interval(x: Any) -> bool:\n    return x.__class__.__name__ == 'Interval'",
    "is_not_Interval": "def is_not_Interval(x: Any) -> bool:\n    return x.__class__.__name__ != 'Interval'",
}
MINMAX_HEAD = "if all([is_not_Interval(x), is_not_Interval(y)]):\n    return numpy.{0}((x, y), axis=0)"


def const(k):
    return {0: "nzero", 1: "none"}.get(k, f"(nofZ N ({k})%Z)")


class Fn:
    def __init__(self, name, float_self=None, vector=False):
        self.name, self.vector = name, vector
        self.kind = {}                       # local name -> 'num' | 'bool' | 'dom'
        self.float_self = float_self         # what the function itself does on a float (tan(zl) inside tan)
        self.maskdef = {}                    # name -> ast of its defining expression (vector forms)

    def v(self, n):
        return "v_" + n

    def strip(self, e):
        """vector forms: e[mask] -> e (per element)"""
        if self.vector and isinstance(e, ast.Subscript) and isinstance(e.slice, ast.Name) and self.kind.get(e.slice.id) == "bool":
            return e.value
        return e

    def num(self, e):
        e = self.strip(e)
        if isinstance(e, ast.Constant) and type(e.value) is int:
            return const(e.value)
        if isinstance(e, ast.UnaryOp) and isinstance(e.op, ast.USub) and isinstance(e.operand, ast.Constant) and type(e.operand.value) is int:
            return const(-e.operand.value)
        if isinstance(e, ast.Name):
            if e.id == "numpy_pi":
                return "pi"
            if self.kind.get(e.id) == "num":
                return self.v(e.id)
        if isinstance(e, ast.Attribute) and isinstance(e.value, ast.Name) and e.value.id == "x" and e.attr in ("lo", "hi"):
            return "(fst x)" if e.attr == "lo" else "(snd x)"
        if isinstance(e, ast.BinOp):
            op = {ast.Add: "nadd N", ast.Sub: "nsub N", ast.Mult: "nmul N", ast.Div: "ndiv N", ast.Mod: "fmod"}.get(type(e.op))
            if op:
                return f"({op} {self.num(e.left)} {self.num(e.right)})"
        if isinstance(e, ast.Call) and not e.keywords:
            f = ast.unparse(e.func)
            if f in ("lo", "hi") and len(e.args) == 1 and ast.unparse(e.args[0]) == "x":
                return "(fst x)" if f == "lo" else "(snd x)"
            if f == "width" and len(e.args) == 1 and ast.unparse(e.args[0]) == "x":
                return "(nsub N (snd x) (fst x))"
            if f in LIBM and len(e.args) == 1:
                return f"({LIBM[f]} {self.num(e.args[0])})"
            if f in ATTR_LIBM and len(e.args) == 1:
                return f"({ATTR_LIBM[f]} {self.num(e.args[0])})"
            if f == self.name and self.float_self and len(e.args) == 1:
                return f"({self.float_self} {self.num(e.args[0])})"
            if f in ("min", "max") and len(e.args) == 2:
                return f"(n{f} {self.num(e.args[0])} {self.num(e.args[1])})"
        raise Unsupported(f"{self.name}: number expression {ast.unparse(e)}")

    def cond(self, e):
        if isinstance(e, ast.Name) and self.kind.get(e.id) == "bool":
            return self.v(e.id)
        if isinstance(e, ast.BinOp) and isinstance(e.op, (ast.BitAnd, ast.BitOr)):
            op = " && " if isinstance(e.op, ast.BitAnd) else " || "
            return f"({self.cond(e.left)}{op}{self.cond(e.right)})"
        if isinstance(e, ast.UnaryOp) and isinstance(e.op, ast.Invert):
            return f"(negb {self.cond(e.operand)})"
        if isinstance(e, ast.Compare) and len(e.ops) == 1:
            a, b = self.num(e.left), self.num(e.comparators[0])
            t = type(e.ops[0])
            if t is ast.LtE:
                return f"(nleb N {a} {b})"
            if t is ast.Lt:
                return f"(nltb N {a} {b})"
            if t is ast.Gt:
                return f"(nltb N {b} {a})"
            if t is ast.GtE:
                return f"(nleb N {b} {a})"
        if isinstance(e, ast.Call) and ast.unparse(e.func) == "contain" and len(e.args) == 2 and isinstance(e.args[0], ast.Name) \
                and self.kind.get(e.args[0].id) == "dom":
            return f"(within N {self.v(e.args[0].id)} {self.num(e.args[1])})"
        raise Unsupported(f"{self.name}: condition {ast.unparse(e)}")

    def is_cond(self, e):
        try:
            self.cond(e)
            return True
        except Unsupported:
            return False

    # ---- results ----
    def interval(self, e, ext):
        """Interval(a, b) / Interval(lo=a, hi=b) as a result"""
        if not (isinstance(e, ast.Call) and ast.unparse(e.func) == "Interval"):
            raise Unsupported(f"{self.name}: returned {ast.unparse(e)}")
        if len(e.args) == 2 and not e.keywords:
            a, b = e.args
        elif not e.args and [k.arg for k in e.keywords] == ["lo", "hi"]:
            a, b = e.keywords[0].value, e.keywords[1].value
        else:
            raise Unsupported(f"{self.name}: returned {ast.unparse(e)}")
        if ext:
            if ast.unparse(a) == "-numpy_inf" and ast.unparse(b) == "numpy_inf":
                return "Ok (MInf, PInf)"
            ta, tb = self.num(a), self.num(b)
            return f"(if nleb N {ta} {tb} then Ok (Fin {ta}, Fin {tb}) else Raise AssertionErr)"
        return f"mkI N {self.num(a)} {self.num(b)}"

    def uses_rest(self, name, restname, seen=()):
        e = self.maskdef.get(name)
        if e is None or name in seen:
            return False
        if isinstance(e, ast.Name):
            return self.uses_rest(e.id, restname, seen + (name,))
        if isinstance(e, ast.BinOp) and isinstance(e.op, ast.BitOr):
            return all(isinstance(s, ast.Name) and self.uses_rest(s.id, restname, seen + (name,)) for s in (e.left, e.right))
        while isinstance(e, ast.BinOp) and isinstance(e.op, ast.BitAnd):
            e = e.left
        return isinstance(e, ast.Name) and e.id == restname

    def body(self, stmts, ext=False):
        if not stmts:
            return "Raise OtherExn"
        s, rest = stmts[0], stmts[1:]
        if isinstance(s, ast.Expr) and isinstance(s.value, ast.Constant) and isinstance(s.value.value, str):
            return self.body(rest, ext)
        if isinstance(s, ast.Return):
            return self.interval(s.value, ext)
        if isinstance(s, ast.Assign) and len(s.targets) == 1 and isinstance(s.targets[0], ast.Name):
            n, e = s.targets[0].id, s.value
            if isinstance(e, ast.Call) and ast.unparse(e.func) == "Interval" and len(e.args) == 2 and not e.keywords:
                t = f"({self.num(e.args[0])}, {self.num(e.args[1])})"
                self.kind[n] = "dom"
            elif self.vector and isinstance(e, ast.Call) and isinstance(e.func, ast.Attribute) and e.func.attr == "copy" and not e.args:
                t = self.num(e.func.value)
                self.kind[n] = "num"
            elif self.is_cond(e):
                t = self.cond(e)
                self.kind[n] = "bool"
                self.maskdef[n] = e
            else:
                t = self.num(e)
                self.kind[n] = "num"
            return f"let {self.v(n)} := {t} in\n  {self.body(rest, ext)}"
        if self.vector and isinstance(s, ast.Assign) and len(s.targets) == 1 and isinstance(s.targets[0], ast.Subscript):
            tg = s.targets[0]
            if isinstance(tg.value, ast.Name) and self.kind.get(tg.value.id) == "num" and isinstance(tg.slice, ast.Name) \
                    and self.kind.get(tg.slice.id) == "bool":
                a, m = tg.value.id, tg.slice.id
                if getattr(self, "need_rest", None) and not self.uses_rest(m, self.need_rest):
                    raise Unsupported(f"{self.name}: mask {m} after the early return is not a conjunction with {self.need_rest}")
                return f"let {self.v(a)} := if {self.v(m)} then {self.num(s.value)} else {self.v(a)} in\n  {self.body(rest, ext)}"
        if isinstance(s, ast.If):
            if self.vector and ast.unparse(s.test).startswith("numpy.all(") and len(s.body) == 1 and isinstance(s.body[0], ast.Return) \
                    and not s.orelse and rest and isinstance(s.test, ast.Call) and isinstance(s.test.args[0], ast.Name):
                # early return when every element is in the first case: per element a no-op provided the later masks exclude that case
                m = s.test.args[0].id
                nxt = rest[0]
                if not (isinstance(nxt, ast.Assign) and ast.unparse(nxt.value) == f"~{m}" and isinstance(nxt.targets[0], ast.Name)):
                    raise Unsupported(f"{self.name}: early return on numpy.all({m}) not followed by its complement")
                if ast.unparse(s.body[0].value) != ast.unparse(stmts[-1].value):
                    raise Unsupported(f"{self.name}: early return differs from the final return")
                self.need_rest = nxt.targets[0].id
                return self.body(rest, ext)
            c = self.cond(s.test)
            if len(s.body) == 1 and isinstance(s.body[0], ast.Return):
                then = self.interval(s.body[0].value, ext)
                if s.orelse:
                    if rest:
                        raise Unsupported(f"{self.name}: statements after if/else returns")
                    return f"if {c} then {then}\n  else {self.body(s.orelse, ext)}"
                return f"if {c} then {then}\n  else {self.body(rest, ext)}"
            if len(s.body) == 1 and isinstance(s.body[0], ast.Assert) is False and isinstance(s.body[0], ast.Raise):
                return f"if {c} then Raise OtherExn\n  else {self.body(rest, ext)}"
        raise Unsupported(f"{self.name}: statement {ast.unparse(s)[:120]}")


def get_fn(tree, name, last=True):
    fs = [n for n in tree.body if isinstance(n, ast.FunctionDef) and n.name == name]
    if not fs:
        raise Unsupported(f"function {name} not found")
    return fs[-1]                           # a later definition shadows an earlier one


def strip_doc(body):
    if body and isinstance(body[0], ast.Expr) and isinstance(body[0].value, ast.Constant) and isinstance(body[0].value.value, str):
        return body[1:]
    return body


def expect_guard(stmt, text, fn):
    if ast.unparse(stmt) != text:
        raise Unsupported(f"{fn}: expected guard `{text}`, found `{ast.unparse(stmt)[:100]}`")


def translate(methods_py, number_py):
    out = [f"(* generated by tools/translate_trig.py from {methods_py}; do not edit *)",
           "From Coq Require Import List Bool ZArith.", "From PUN Require Import Base.Num Model.Interval Model.IntervalFun.", "",
           "Section G.", "Variable N : Num.", "Notation pr := (N * N)%type.", "Variable pi : N.",
           "Variables fexp flog fsin fcos ftan : N -> N.", "Variable fmod : N -> N -> N."]
    try:
        tree = ast.parse(open(methods_py).read())
        ntree = ast.parse(open(number_py).read())
        # aliases and helpers the translation relies on
        assigns = {ast.unparse(n.targets[0]): ast.unparse(n.value) for n in tree.body if isinstance(n, ast.Assign) and len(n.targets) == 1}
        for k, v in ALIASES.items():
            if assigns.get(k) != v:
                raise Unsupported(f"alias {k} is {assigns.get(k)!r}, expected {v}")
        for k, text in HELPERS.items():
            if ast.unparse(get_fn(tree, k)) != text:
                raise Unsupported(f"helper {k} changed: {ast.unparse(get_fn(tree, k))[:200]}")
        for k in ("min", "max"):
            f = get_fn(tree, k)
            if ast.unparse(f.body[0]) != MINMAX_HEAD.format(k):
                raise Unsupported(f"helper {k} on numbers changed: {ast.unparse(f.body[0])[:200]}")
        w = get_fn(ntree, "width")
        if [ast.unparse(t) for t in strip_doc(w.body)] != ["if is_Interval(x):\n    return hi(x) - lo(x)", "return x"]:
            raise Unsupported(f"number.width changed: {ast.unparse(w)[:200]}")
        for k in ("lo", "hi"):
            f = get_fn(ntree, k)
            b = strip_doc(f.body)
            want = [f"if is_Interval(x):\n    return x.{k}", "return x"]
            if [ast.unparse(s) for s in b] != want:
                raise Unsupported(f"number.{k} changed: {ast.unparse(f)[:200]}")

        # monotone functions
        for name, guard, lib in (("exp", "if is_not_Interval(x):\n    return numpy_exp(x)", None),):
            f = get_fn(tree, name)
            b = strip_doc(f.body)
            expect_guard(b[0], guard, name)
            out += ["", f"Definition gen_{name} (x : pr) : res pr :=\n  {Fn(name).body(b[1:])}."]
        f = get_fn(tree, "log")
        b = strip_doc(f.body)
        expect_guard(b[0], "if is_not_Interval(x):\n    return numpy.log(x)\nelse:\n    assert numpy.all(x.lo > 0), 'interval has to be positive'", "log")
        out += ["", f"Definition gen_log (x : pr) : res pr :=\n  if nltb N nzero (fst x) then {Fn('log').body(b[1:])} else Raise AssertionErr."]
        f = get_fn(tree, "sqrt")
        b = strip_doc(f.body)
        want = ["x_lo_sqrt = numpy.sqrt(lo(x))", "if is_Interval(x):\n    x_hi_sqrt = numpy.sqrt(hi(x))\n    return Interval(x_lo_sqrt, x_hi_sqrt)", "return x_lo_sqrt"]
        if [ast.unparse(s) for s in b] != want:
            raise Unsupported("sqrt: body changed")
        out += ["", f"Definition gen_sqrt (x : pr) : res pr :=\n  {Fn('sqrt').body([b[0]] + b[1].body)}."]

        # scalar trig tables
        for name, lib, vec in (("sin", "numpy_sin", "sin_vector"), ("cos", "numpy_cos", "cos_vector"), ("tan", "numpy_tan", "tan_vector")):
            f = get_fn(tree, name)
            b = strip_doc(f.body)
            expect_guard(b[0], f"if not is_Interval(x):\n    return {lib}(x)", name)
            expect_guard(b[1], f"if not x.scalar:\n    return {vec}(x)", name)
            ext = name == "tan"
            ty = "res (ext N * ext N)" if ext else "res pr"
            out += ["", f"Definition gen_{name} (x : pr) : {ty} :=\n  {Fn(name, float_self=LIBM[lib]).body(b[2:], ext)}."]
        # masked forms, one element
        for name, sc in (("sin_vector", "sin"), ("cos_vector", "cos")):
            f = get_fn(tree, name)
            b = strip_doc(f.body)
            expect_guard(b[0], f"if x.unsized:\n    return {sc}(x)", name)
            out += ["", f"Definition gen_{name} (x : pr) : res pr :=\n  {Fn(name, vector=True).body(b[1:])}."]
    except (Unsupported, SyntaxError, OSError, IndexError, AttributeError) as ex:
        out += ["", f"(* TRANSLATION ABORTED: {str(ex)[:300]} *)", "Definition translation_aborted : True := I I."]
    out += ["End G.", ""]
    return "\n".join(out)


if __name__ == "__main__":
    import sys
    base = sys.argv[1] if len(sys.argv) > 1 else "/repo/src/pyuncertainnumber"
    print(translate(os.path.join(base, "pba/intervals/methods.py"), os.path.join(base, "pba/intervals/number.py")))
