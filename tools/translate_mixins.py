"""Fail-closed translator: pba/mixins.py _PboxOpsMixin.__init_subclass__ -> Gen/GenDispatch.v

The mixin installs, for every name in _BIN_OPS, a forward dunder and the reflected dunder _REFL[name] on Dempster-Shafer
structures. Both convert self to its p-box view and call a dunder OF THE P-BOX:
    forward   installed[name](self, other) = getattr(P(self), X)(coerce(other))
    reflected installed[refl](self, other) = getattr(P(self), Y)(coerce(other))
The translator checks the two closure templates statement by statement and records which p-box dunder (X, Y) each installed
name invokes.  Output:  dss_installed : list (installed name * p-box dunder invoked on the p-box view of self).
"""
import ast


class Unsupported(Exception):
    pass


FWD_TEMPLATE = ["a = self._to_pbox()", "b = cls._coerce_to_pbox(other)", "meth = getattr(a, {p}, None)",
                "if meth is None:\n    return NotImplemented", "return meth(b)"]
REFL_TEMPLATE = ["a = cls._coerce_to_pbox(other)", "b = self._to_pbox()", "meth = getattr(b, {p}, None)",
                 "if meth is None:\n    return NotImplemented", "return meth(a)"]


def closure(fn, template):
    """fn: def make_x(p): @wraps(..) def _op(self, other): <template>; return _op  -> parameter name"""
    if len(fn.args.args) != 1:
        raise Unsupported(f"{fn.name}: one parameter expected")
    p = fn.args.args[0].arg
    body = [s for s in fn.body if not (isinstance(s, ast.Expr) and isinstance(s.value, ast.Constant))]
    if len(body) != 2 or not isinstance(body[0], ast.FunctionDef) or not isinstance(body[1], ast.Return) or ast.unparse(body[1].value) != body[0].name:
        raise Unsupported(f"{fn.name}: unexpected shape")
    inner = body[0]
    if [a.arg for a in inner.args.args] != ["self", "other"]:
        raise Unsupported(f"{fn.name}: inner signature")
    got = [ast.unparse(s) for s in inner.body]
    want = [t.format(p=p) for t in template]
    if got != want:
        raise Unsupported(f"{fn.name}: body differs from the template: {got}")
    return p


def translate(path):
    tree = ast.parse(open(path).read())
    cls = [n for n in tree.body if isinstance(n, ast.ClassDef) and n.name == "_PboxOpsMixin"]
    if len(cls) != 1:
        raise Unsupported("_PboxOpsMixin not found")
    cls = cls[0]
    consts = {}
    for st in cls.body:
        if isinstance(st, ast.Assign) and len(st.targets) == 1 and isinstance(st.targets[0], ast.Name):
            try:
                consts[st.targets[0].id] = ast.literal_eval(st.value)
            except Exception:
                pass
    if "_BIN_OPS" not in consts or "_REFL" not in consts:
        raise Unsupported("_BIN_OPS / _REFL not literal")
    init = [n for n in cls.body if isinstance(n, ast.FunctionDef) and n.name == "__init_subclass__"]
    if len(init) != 1:
        raise Unsupported("__init_subclass__ not found")
    loops = [n for n in init[0].body if isinstance(n, ast.For)]
    if not loops:
        raise Unsupported("no loop")
    lp = loops[0]
    it = ast.unparse(lp.iter)
    # loop variables -> per-iteration environment
    if it == "cls._BIN_OPS" and isinstance(lp.target, ast.Name):
        envs = [{lp.target.id: n} for n in consts["_BIN_OPS"]]
    elif it in ("cls._REFL.items()",) and isinstance(lp.target, ast.Tuple) and len(lp.target.elts) == 2:
        a, b = (e.id for e in lp.target.elts)
        envs = [{a: k, b: v} for k, v in consts["_REFL"].items()]
    else:
        raise Unsupported("loop header: " + ast.unparse(lp.target) + " in " + it)
    fwd_param = refl_param = None
    setattrs = []
    assigns = []
    for st in lp.body:
        if isinstance(st, ast.FunctionDef) and st.name == "make_bin":
            fwd_param = closure(st, FWD_TEMPLATE)
        elif isinstance(st, ast.FunctionDef) and st.name == "make_rbin":
            refl_param = closure(st, REFL_TEMPLATE)
        elif isinstance(st, ast.Assign) and len(st.targets) == 1 and isinstance(st.targets[0], ast.Name):
            assigns.append((st.targets[0].id, st.value))
        elif isinstance(st, ast.Expr) and isinstance(st.value, ast.Call) and ast.unparse(st.value.func) == "setattr":
            setattrs.append(st.value)
        else:
            raise Unsupported("loop statement: " + ast.unparse(st)[:60])
    if fwd_param is None or refl_param is None:
        raise Unsupported("make_bin / make_rbin not found")

    def ev(node, env):
        if isinstance(node, ast.Name) and node.id in env:
            return env[node.id]
        if isinstance(node, ast.Subscript) and ast.unparse(node.value) == "cls._REFL":
            return consts["_REFL"][ev(node.slice, env)]
        if isinstance(node, ast.Constant) and isinstance(node.value, str):
            return node.value
        raise Unsupported("expression: " + ast.unparse(node))

    rows = []
    for env in envs:
        env = dict(env)
        for name, val in assigns:
            env[name] = ev(val, env)
        for call in setattrs:
            if len(call.args) != 3 or ast.unparse(call.args[0]) != "cls":
                raise Unsupported("setattr: " + ast.unparse(call))
            installed = ev(call.args[1], env)
            mk = call.args[2]
            if not (isinstance(mk, ast.Call) and isinstance(mk.func, ast.Name) and mk.func.id in ("make_bin", "make_rbin") and len(mk.args) == 1):
                raise Unsupported("setattr value: " + ast.unparse(mk))
            invoked = ev(mk.args[0], env)
            rows.append((installed, invoked, mk.func.id))
    names = [r[0] for r in rows]
    if len(set(names)) != len(names):
        raise Unsupported("a dunder is installed twice")
    out = [f"(* generated by tools/translate_mixins.py from {path}; do not edit *)", "From Coq Require Import String List.", "Import ListNotations.",
           "Open Scope string_scope.", "",
           "(* installed dunder of a Dempster-Shafer structure  |->  dunder of the p-box view of self that is invoked with the (converted) other operand *)",
           "Definition dss_installed : list (string * string) :=", "  ["]
    out.append(";\n".join(f'   ("{i}", "{v}")' for i, v, _ in rows))
    out += ["  ].", "Definition refl_names : list (string * string) :=", "  ["]
    out.append(";\n".join(f'   ("{k}", "{v}")' for k, v in consts["_REFL"].items()))
    out += ["  ].", ""]
    return "\n".join(out)


if __name__ == "__main__":
    import sys
    print(translate(sys.argv[1]))
