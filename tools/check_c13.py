#!/venv/bin/python
"""C13 - interval propagation strategies nest around the true range."""
import itertools
import math
import os
import sys

sys.path.insert(0, os.path.dirname(os.path.abspath(__file__)))
import vlib
import pbx
from pbx import np
from vlib import coq_list, hexf

EXC = {"ZeroDivisionError": 0, "AssertionError": 1, "ValueError": 2, "TypeError": 3}
RECORD = []     # (argument, numpy.exp(argument)) pairs seen while evaluating a response function


# --------------------------------------------------------------------------- grammar
def gen_expr(rng, d, depth):
    """random response function over variables 0..d-1; denominators and sqrt arguments are kept positive"""
    def leaf():
        if rng.random() < 0.75:
            return ("var", rng.randrange(d))
        return ("const", rng.choice([1, 2, 3, 5, 15, 25, -1, -2, 7]), rng.choice([0, 0, 1]))

    def positive(dp, in_exp):
        a = gen(dp, in_exp)
        return ("add", ("pow", a, 2), ("const", rng.choice([1, 2, 5]), rng.choice([0, 1])))

    def gen(dp, in_exp=False):
        # inside the argument of exp only squares are used: x**k for k > 2 is numpy's libm power, which the model computes by
        # repeated multiplication (last-bit differences would miss the recorded exp table)
        if dp <= 0:
            return leaf()
        r = rng.random()
        if r < 0.22:
            return ("add", gen(dp - 1, in_exp), gen(dp - 1, in_exp))
        if r < 0.42:
            return ("sub", gen(dp - 1, in_exp), gen(dp - 1, in_exp))
        if r < 0.66:
            return ("mul", gen(dp - 1, in_exp), gen(dp - 1, in_exp))
        if r < 0.74:
            return ("div", gen(dp - 1, in_exp), positive(dp - 2, in_exp))
        if r < 0.88:
            return ("pow", gen(dp - 1, in_exp), 2 if in_exp else rng.choice([2, 2, 3, 4]))
        if r < 0.94:
            return ("exp", ("div", gen(dp - 1, True), ("const", 4, 0)) if dp > 1 else leaf())
        return ("sqrt", positive(dp - 2, in_exp))
    return gen(depth)


def py_src(e):
    k = e[0]
    if k == "var":
        return f"X[{e[1]}]"
    if k == "const":
        return f"C({e[1]}, {e[2]})"
    if k in ("add", "sub", "mul", "div"):
        op = {"add": "+", "sub": "-", "mul": "*", "div": "/"}[k]
        return f"({py_src(e[1])} {op} {py_src(e[2])})"
    if k == "pow":
        return f"({py_src(e[1])} ** {e[2]})"
    if k == "exp":
        return f"EXP({py_src(e[1])})"
    return f"np.sqrt({py_src(e[1])})"


def coq_src(e):
    k = e[0]
    if k == "var":
        return f"Var {e[1]}"
    if k == "const":
        return f"Const ({e[1]})%Z {e[2]}"
    if k in ("add", "sub", "mul", "div"):
        c = {"add": "EAdd", "sub": "ESub", "mul": "EMul", "div": "EDiv"}[k]
        return f"{c} ({coq_src(e[1])}) ({coq_src(e[2])})"
    if k == "pow":
        return f"EPow ({coq_src(e[1])}) {e[2]}"
    if k == "exp":
        return f"EExp ({coq_src(e[1])})"
    return f"ESqrt ({coq_src(e[1])})"


def high_pow(e):
    """contains x**k with k > 2 (numpy's libm power; the model multiplies repeatedly, so such functions are oracle-only)"""
    if e[0] == "pow" and e[2] > 2:
        return True
    return any(high_pow(t) for t in e[1:] if isinstance(t, tuple))


def variables(e):
    if e[0] == "var":
        return {e[1]}
    return set().union(*[variables(s) for s in e[1:] if isinstance(s, tuple)]) if len(e) > 1 else set()


def make_func(e):
    from pyuncertainnumber.pba.intervals.number import Interval as I

    def C(m, k):
        return m / 10 ** k

    def EXP(v):
        if isinstance(v, I):
            return v.exp()            # methods.exp -> methods.numpy_exp (patched to record)
        r = np.exp(v)
        for a, b in zip(np.atleast_1d(np.asarray(v, dtype=float)).ravel(), np.atleast_1d(np.asarray(r, dtype=float)).ravel()):
            RECORD.append((float(a), float(b)))
        return r
    env = {"np": np, "C": C, "EXP": EXP}
    src = "def f(x):\n    if isinstance(x, np.ndarray):\n        if x.ndim == 1:\n            x = x[None, :]\n        X = [x[:, i] for i in range(x.shape[1])]\n" \
          "    elif getattr(x, 'shape', None) == ():\n        X = [x]\n    else:\n        X = x\n    return " + py_src(e) + "\n"
    exec(src, env)
    return env["f"], src


def patch_exp_recorder():
    from pyuncertainnumber.pba.intervals import methods as M

    def rec_exp(v):
        r = np.exp(v)
        for a, b in zip(np.atleast_1d(np.asarray(v, dtype=float)).ravel(), np.atleast_1d(np.asarray(r, dtype=float)).ravel()):
            RECORD.append((float(a), float(b)))
        return r
    M.numpy_exp = rec_exp


def gen_box(rng, d):
    from check_c01 import sign_class
    box = []
    for _ in range(d):
        a, b = sign_class(rng, rng.choice([0, 1, 2, 2, 3, 4, 8, 6]))
        s = rng.choice([0.002, 0.004])       # keep magnitudes moderate: |x| <= 4
        a, b = a * s, b * s
        if abs(a) > 3 or abs(b) > 3:
            a, b = a / 1000, b / 1000
        r = rng.random()
        if r < 0.12:       # a proper interval that is very narrow for its magnitude (relative width 1e-7 .. 4e-6), either sign
            a = rng.choice([-1, 1]) * rng.uniform(0.1, 3)
            b = a + abs(a) * rng.choice([1e-7, 1e-6, 4e-6])
        elif r < 0.16:     # a proper interval of tiny absolute size
            a, b = sorted([rng.uniform(1, 9) * 1e-9, rng.uniform(1, 9) * 1e-9])
            if rng.random() < 0.5:
                a, b = -b, -a
        box.append((float(a), float(b)))
    return box


def run_strategy(f, box, strat):
    from pyuncertainnumber.propagation.b2b import b2b
    from pyuncertainnumber.pba.intervals.number import Interval as I
    vars_ = [I(a, b) for a, b in box] if len(box) > 1 else I(*box[0])
    try:
        if strat[0] == "direct":
            r = b2b(vars_, f, interval_strategy="direct")
        elif strat[0] == "endpoints":
            r = b2b(vars_, f, interval_strategy="endpoints")
        elif strat[0] == "sub_direct":
            r = b2b(vars_, f, interval_strategy="subinterval", subinterval_style="direct", n_sub=strat[1])
        else:
            r = b2b(vars_, f, interval_strategy="subinterval", subinterval_style="endpoints", n_sub=strat[1])
        if type(r).__name__ != "Interval":
            return ("exc", 4, f"returned {type(r).__name__}")
        return ("ok", float(np.min(r.lo)), float(np.max(r.hi)))
    except Exception as e:
        return ("exc", EXC.get(type(e).__name__, 9), type(e).__name__ + ": " + str(e)[:80])


def sample_range(f, box, rng):
    """values of the response on a lattice, at the corners and at random points (float evaluation through the vectorised signature)"""
    d = len(box)
    pts = [list(c) for c in itertools.product(*[(a, b) for a, b in box])]
    m = {1: 201, 2: 41, 3: 13, 4: 7}[d]
    grids = [np.linspace(a, b, m) for a, b in box]
    pts += [list(c) for c in itertools.product(*grids)]
    pts += [[a + (b - a) * rng.random() for a, b in box] for _ in range(300)]
    X = np.array(pts, dtype=float)
    with np.errstate(all="ignore"):
        y = np.asarray(f(X), dtype=float)
    if y.ndim == 0:
        y = np.full(len(pts), float(y))
    return y


def body(chk):
    from pyuncertainnumber.pba.intervals.methods import subintervalise, reconstitute
    from pyuncertainnumber.pba.intervals.number import Interval as I
    patch_exp_recorder()
    pr = chk.do_proofs()
    rng = chk.rng
    n_funcs = 70 if chk.tier == "quick" else 800
    items, flat = [], []
    for fi in range(n_funcs):
        d = rng.choice([1, 2, 2, 3, 3, 4])
        e = gen_expr(rng, d, rng.choice([2, 3, 3]))
        if not variables(e):
            e = ("add", e, ("var", 0))
        box = gen_box(rng, d)
        f, src = make_func(e)
        nsub = rng.choice([1, 2, 2, 3, 4, 5, 8]) if d <= 2 else rng.choice([1, 2, 2, 3])
        strategies = [("direct",), ("endpoints",), ("sub_direct", nsub), ("sub_endpoints", nsub)]
        res = {}
        for st in strategies:
            del RECORD[:]
            out = run_strategy(f, box, st)
            res[st[0]] = out
            tab = list(dict.fromkeys(RECORD))
            chk.count(f"{st[0]}-d{d}", key=(src, tuple(box), st))
            scoq = {"direct": "SDirect", "endpoints": "SEndpoints", "sub_direct": f"(SSubDirect {st[-1]}%nat)", "sub_endpoints": f"(SSubEndpoints {st[-1]}%nat)"}[st[0]]
            o = f"FOk {hexf(out[1])} {hexf(out[2])}" if out[0] == "ok" else f"FExc {out[1]}"
            if len(tab) < 3000 and not high_pow(e):
                items.append(f"({coq_src(e)}, {coq_list(['(%s, %s)' % (hexf(a), hexf(b)) for a, b in box])}, {scoq}, "
                             f"{coq_list(['(%s, %s)' % (hexf(a), hexf(b)) for a, b in tab])}, {o})")
                flat.append((src, box, st, out))
        # ---- property oracle
        rep = {"kind": "oracle", "function": src, "box": box, "n_sub": nsub, "results": res}
        ys = sample_range(f, box, rng)
        ys = ys[np.isfinite(ys)]
        lo_s, hi_s = (float(ys.min()), float(ys.max())) if len(ys) else (math.inf, -math.inf)
        tol = 1e-9 * max(1.0, abs(lo_s), abs(hi_s))
        D, E, SD, SE = res["direct"], res["endpoints"], res["sub_direct"], res["sub_endpoints"]
        site = f"b2b:d{d}"
        if any(r[0] != "ok" for r in (D, E, SD, SE)):
            bad = [k for k, r in res.items() if r[0] != "ok"]
            chk.report(site + ":" + bad[0], f"strategy {bad[0]} raises {res[bad[0]][2]}", rep)
            continue
        if D[1] > lo_s + tol or D[2] < hi_s - tol:
            chk.report(site + ":direct", f"direct evaluation [{D[1]}, {D[2]}] does not enclose sampled values [{lo_s}, {hi_s}]", rep)
        if SD[1] > lo_s + tol or SD[2] < hi_s - tol:
            chk.report(site + ":sub_direct", f"subinterval/direct [{SD[1]}, {SD[2]}] does not enclose sampled values [{lo_s}, {hi_s}]", rep)
        if SD[1] < D[1] - tol or SD[2] > D[2] + tol:
            chk.report(site + ":sub_direct", f"subinterval/direct [{SD[1]}, {SD[2]}] is not contained in the un-subdivided direct result [{D[1]}, {D[2]}]", rep)
        corners = np.array(list(itertools.product(*[(a, b) for a, b in box])), dtype=float)
        with np.errstate(all="ignore"):
            yc = np.asarray(f(corners), dtype=float)
        if yc.ndim == 0:
            yc = np.full(len(corners), float(yc))
        if E[1] != float(yc.min()) or E[2] != float(yc.max()):
            chk.report(site + ":endpoints", f"vertex method [{E[1]}, {E[2]}] is not the min/max over the 2^d corners [{yc.min()}, {yc.max()}]", rep)
        if SE[1] > E[1] + tol or SE[2] < E[2] - tol:
            chk.report(site + ":sub_endpoints", f"subinterval/endpoints [{SE[1]}, {SE[2]}] does not contain the vertex result [{E[1]}, {E[2]}]", rep)
        if SE[1] < SD[1] - tol or SE[2] > SD[2] + tol:
            chk.report(site + ":sub_endpoints", f"subinterval/endpoints [{SE[1]}, {SE[2]}] exceeds the enclosure of the true range [{SD[1]}, {SD[2]}]", rep)
        # the class API (propagation/p.py): EpistemicPropagation on constructs and Propagation on uncertain numbers give the same intervals
        if d >= 2:
            from pyuncertainnumber.propagation.p import EpistemicPropagation, Propagation
            import pyuncertainnumber as pun
            ivs = [I(a, b) for a, b in box]
            routes = [("endpoints", {}, E), ("vertex", {}, E), ("subinterval", dict(subinterval_style="endpoints", n_sub=nsub), SE),
                      ("subinterval_reconstitution", dict(subinterval_style="direct", n_sub=nsub), SD)]
            for meth, kw, ref in routes:
                for api in ("EpistemicPropagation", "Propagation"):
                    chk.count(f"class-{api}-{meth}", key=(src, tuple(box), meth, api, nsub))
                    try:
                        if api == "EpistemicPropagation":
                            r = EpistemicPropagation(vars=ivs, func=f, method=meth).run(**kw)
                        else:
                            r = Propagation(vars=[pun.I([a, b]) for a, b in box], func=f, method=meth).run(**kw)
                            r = r.construct if hasattr(r, "construct") else r
                        got = (float(np.min(r.lo)), float(np.max(r.hi)))
                    except Exception as ex:
                        chk.report(f"p.{api}:{meth}", f"{api}(method='{meth}').run({kw}) raises {type(ex).__name__}: {str(ex)[:80]} (b2b gives [{ref[1]}, {ref[2]}])", rep)
                        continue
                    if got != (ref[1], ref[2]):
                        chk.report(f"p.{api}:{meth}", f"{api}(method='{meth}').run({kw}) = [{got[0]}, {got[1]}] differs from b2b's [{ref[1]}, {ref[2]}]", rep)
        # tiles partition the box exactly
        if d >= 2:
            sub = subintervalise(I([a for a, _ in box], [b for _, b in box]), nsub)
            tl, th = np.asarray(sub.lo), np.asarray(sub.hi)
            ok = tl.shape == (nsub ** d, d)
            for j in range(d):
                edges = np.linspace(box[j][0], box[j][1], nsub + 1)
                ok = ok and set(map(float, tl[:, j])) <= set(map(float, edges[:-1])) and set(map(float, th[:, j])) <= set(map(float, edges[1:]))
                ok = ok and edges[0] == box[j][0] and edges[-1] == box[j][1]
            if all(b > a for a, b in box):
                ok = ok and len({tuple(r) for r in np.hstack([tl, th])}) == nsub ** d
            rec = reconstitute(sub)
            if not ok or float(np.min(rec.lo)) != min(a for a, _ in box) and False:
                chk.report("subintervalise", "tiles do not partition the box (wrong count, overlap or gap)", rep)
    # ---- ONE box, several response functions in a row through the vertex method (no subdivision in between), and the first function once
    # more at the end: every answer is the min / max of THAT function over the corners
    for rd in range(6 if chk.tier == "quick" else 60):
        d = rng.choice([2, 2, 3])
        box = gen_box(rng, d)
        corners = np.array(list(itertools.product(*[(a, b) for a, b in box])), dtype=float)
        funcs = []
        for _ in range(3):
            e = gen_expr(rng, d, rng.choice([2, 3]))
            if not variables(e):
                e = ("add", e, ("var", 0))
            funcs.append(make_func(e))
        seq = funcs + [funcs[0]]
        for step, (f, src) in enumerate(seq):
            out = run_strategy(f, box, ("endpoints",))
            chk.count("same-box-endpoints", key=("samebox", rd, step))
            with np.errstate(all="ignore"):
                yc = np.asarray(f(corners), dtype=float)
            if yc.ndim == 0:
                yc = np.full(len(corners), float(yc))
            if not np.isfinite(yc).all():
                continue
            rep = {"kind": "oracle", "box": box, "functions_in_order": [s_ for _, s_ in seq[:step + 1]], "observed": out}
            if out[0] != "ok":
                chk.report("b2b:endpoints:same-box", f"vertex method raises {out[2]} for function {step + 1} of a sequence on one box", rep)
            elif out[1] != float(yc.min()) or out[2] != float(yc.max()):
                chk.report("b2b:endpoints:same-box", f"function {step + 1} of a sequence of vertex evaluations on ONE box: result [{out[1]}, {out[2]}] is not the min/max of that function over the 2^d corners [{yc.min()}, {yc.max()}]", rep)
                break
    chunks = []
    CH = 20
    for s in range(0, len(items), CH):
        chunks.append(("Definition cases : list bcase := " + coq_list(items[s:s + CH]).replace("; (E", ";\n (E").replace("; (V", ";\n (V") +
                       ".\nDefinition verdicts := map bcheck cases.\n", len(items[s:s + CH])))
    exact, rounded, bad, log = vlib.run_coq_cases("C13", chunks, "From PUN Require Import Model.Interval Model.IntervalFun Model.B2B Corr.CorrC05 Corr.CorrC13.\n", jobs=14)
    chk.corr = {"cases": len(items), "bit_exact": exact, "rounded": rounded, "disagree": len(bad)}
    if log:
        chk.corr["log"] = log[-600:]
    chk.sample({"function": flat[0][0], "box": flat[0][1], "strategy": flat[0][2], "impl": flat[0][3]})
    chk.sample({"function": flat[-1][0], "box": flat[-1][1], "strategy": flat[-1][2], "impl": flat[-1][3]})
    for i in bad[:3]:
        src, box, st, out = flat[i]
        chk.report(f"correspondence:b2b:{st[0]}", "model and implementation disagree", {"kind": "correspondence", "function": src, "box": box, "strategy": st, "observed": out, "coq_log": log[-300:]}, found_input=True)
    if not pr["ok"]:
        if not chk.violations:
            chk.report("proof", "proof obligation no longer checks", chk.proof_broken_replay(), found_input=False)
        else:
            chk.violations[0][0]["proof_broken"] = chk.proof_broken_replay()


RULE = ("random response functions from the grammar + - * / x**k exp sqrt (depth 2..3, repeated variables, constants), input boxes of dimension 1..4 with every sign "
        "configuration, subdivision counts 2..8; each function is rendered as a Python callable (iterable and vectorised signatures) and as a Coq term; "
        "b2b(direct | endpoints | subinterval/direct | subinterval/endpoints) compared with the Coq model and with the nesting relations against a sampled range. "
        "distinct key = (function source, box, strategy)")
TB = ["hand-written Model/B2B.v (ieval over Model/Interval + Model/IntervalFun, corner enumeration, tiling, reconstitution) tied by the in-Coq run",
      "numpy.exp values are recorded tables; x**k is compared up to rounding (numpy's power vs repeated multiplication)",
      "the true range is only sampled (lattice + corners + random points) in the oracle",
      "containment of subinterval/direct in direct (isotonicity) is a theorem under C12, here checked by the oracle"]

if __name__ == "__main__":
    chk = vlib.main_wrapper("C13", body)
    sys.exit(chk.finish(rule=RULE, trusted_base=TB))
