#!/venv/bin/python
"""C19 - TMCMC tempering progresses to the posterior; its MH kernel respects the target."""
import math
import os
import sys
import tempfile
import warnings

sys.path.insert(0, os.path.dirname(os.path.abspath(__file__)))
import vlib
import pbx
from pbx import np
from vlib import coq_list, flist, hexf

warnings.filterwarnings("ignore")


# ---------------------------------------------------------------------------------------------------------------------
# recording proxy for the numpy namespace seen by calibration/tmcmc.py (installed in this process only)
# ---------------------------------------------------------------------------------------------------------------------
class RandomProxy:
    def __init__(self, real, rec):
        self._real, self._rec = real, rec

    def __getattr__(self, name):
        return getattr(self._real, name)

    def uniform(self, *a, **k):
        u = self._real.uniform(*a, **k)
        self._rec["uniform"].append(u)
        return u


class NPProxy:
    def __init__(self, real):
        self._real = real
        self.rec = {"exp": [], "log": [], "uniform": []}
        self.random = RandomProxy(real.random, self.rec)

    def __getattr__(self, name):
        return getattr(self._real, name)

    def exp(self, x):
        r = self._real.exp(x)
        self.rec["exp"].append(self._real.array(r, dtype=float, copy=True))
        return r

    def log(self, x):
        r = self._real.log(x)
        if self._real.ndim(r) == 0:
            self.rec["log"].append(float(r))
        return r


def ess_of(Wm):
    """exactly the statements of compute_beta_update_evidence"""
    Wm_n = Wm / sum(Wm)
    return int(1 / np.sum(Wm_n ** 2))


def ess_at(ls, inc):
    with np.errstate(all="ignore"):
        Wm = np.exp(inc * (ls - ls.max()))
        return ess_of(Wm)


def gen_loglik(rng, N):
    kind = rng.choice(["gauss", "wide", "tiny", "ties", "one-peak", "neginf-few", "neginf-many", "flat", "huge"])
    r = np.random.default_rng(rng.randint(0, 10 ** 9))
    if kind == "gauss":
        ls = -0.5 * r.normal(0, 1, N) ** 2 * rng.choice([1, 10, 100])
    elif kind == "wide":
        ls = r.uniform(-1e4, 0, N)
    elif kind == "tiny":
        ls = r.uniform(-1e-6, 0, N)
    elif kind == "ties":
        ls = r.choice([-3.0, -1.0, -0.5, 0.0], N)
    elif kind == "one-peak":
        ls = np.full(N, -50.0)
        ls[rng.randrange(N)] = 0.0
    elif kind == "neginf-few":
        ls = -0.5 * r.normal(0, 2, N) ** 2
        ls[r.choice(N, max(1, N // 50), replace=False)] = -np.inf
    elif kind == "neginf-many":
        ls = -0.5 * r.normal(0, 2, N) ** 2
        ls[r.choice(N, N // 5, replace=False)] = -np.inf
    elif kind == "flat":
        ls = np.full(N, -7.25)
    else:
        ls = r.uniform(-1e3, 1e3, N) + 1e6
    return kind, ls


# ---- independent log-densities of the prior families (math only) ----
def phi_cdf(z):
    return 0.5 * (1.0 + math.erf(z / math.sqrt(2.0)))


def log_normal_mass(a, b):
    """log(Phi(b) - Phi(a)) for a < b, evaluated in the tail the window lies in (erfc keeps its relative accuracy there; the difference of
    two cdf values next to 1 would cancel)"""
    r2 = math.sqrt(2.0)
    if a > 0:
        return math.log(0.5 * (math.erfc(a / r2) - math.erfc(b / r2)))
    if b < 0:
        return math.log(0.5 * (math.erfc(-b / r2) - math.erfc(-a / r2)))
    return math.log(phi_cdf(b) - phi_cdf(a))


def own_log_prior(spec, x):
    k = spec["family"]
    if k == "Uniform":
        return -math.log(spec["upper"] - spec["lower"]) if spec["lower"] <= x <= spec["upper"] else -math.inf
    if k == "Normal":
        return -0.5 * math.log(2 * math.pi) - math.log(spec["sig"]) - 0.5 * ((x - spec["mu"]) / spec["sig"]) ** 2
    if k == "HalfNormal":
        return -math.log(spec["sig"]) + 0.5 * math.log(2 / math.pi) - x * x / (2 * spec["sig"] ** 2) if x >= 0 else -math.inf
    if k == "TruncatedNormal":
        if not (spec["low"] <= x <= spec["up"]):
            return -math.inf
        a, b = (spec["low"] - spec["mu"]) / spec["sig"], (spec["up"] - spec["mu"]) / spec["sig"]
        return -0.5 * math.log(2 * math.pi) - math.log(spec["sig"]) - 0.5 * ((x - spec["mu"]) / spec["sig"]) ** 2 - log_normal_mass(a, b)
    if k == "Distribution":       # pba.Distribution('uniform', (a, b))
        a, b = spec["params"]
        return -math.log(b - a) if a <= x <= b else -math.inf
    raise ValueError(k)


def support_of(spec):
    k = spec["family"]
    return {"Uniform": lambda: (spec["lower"], spec["upper"]), "Normal": lambda: (-math.inf, math.inf), "HalfNormal": lambda: (0.0, math.inf),
            "TruncatedNormal": lambda: (spec["low"], spec["up"]), "Distribution": lambda: tuple(spec["params"])}[k]()


def gen_prior(rng):
    k = rng.choice(["Uniform", "Normal", "HalfNormal", "TruncatedNormal", "TruncatedNormal", "Distribution"])
    if k == "Uniform":
        lo = rng.choice([0.0, -2.0, 1.0])
        return {"family": k, "lower": lo, "upper": lo + rng.choice([1.0, 3.0])}
    if k == "Normal":
        return {"family": k, "mu": rng.choice([0.0, 1.0]), "sig": rng.choice([0.5, 1.0, 2.0])}
    if k == "HalfNormal":
        return {"family": k, "sig": rng.choice([0.5, 1.0, 2.0])}
    if k == "TruncatedNormal":
        mu = rng.choice([0.0, 1.0])
        if rng.random() < 0.35:      # a truncation window far out in one tail of the parent normal (either side)
            sig, t, sgn = rng.choice([0.05, 0.5, 1.0]), rng.choice([5.5, 6.0, 7.0, 8.5]), rng.choice([-1, 1])
            lo_, up_ = sorted([mu + sgn * t * sig, mu + sgn * (t + rng.choice([0.5, 1.0, 2.0])) * sig])
            return {"family": k, "mu": mu, "sig": sig, "low": lo_, "up": up_}
        return {"family": k, "mu": mu, "sig": rng.choice([0.5, 1.0, 2.0, 3.0]), "low": mu - rng.choice([1.0, 0.5]), "up": mu + rng.choice([1.0, 2.0])}
    a = rng.choice([0.0, -1.0])
    return {"family": k, "params": [a, a + rng.choice([1.0, 2.0])]}


def mk_prior(spec):
    from pyuncertainnumber.calibration import pdfs
    from pyuncertainnumber import pba
    k = spec["family"]
    if k == "Uniform":
        return pdfs.Uniform(spec["lower"], spec["upper"])
    if k == "Normal":
        return pdfs.Normal(spec["mu"], spec["sig"])
    if k == "HalfNormal":
        return pdfs.HalfNormal(spec["sig"])
    if k == "TruncatedNormal":
        return pdfs.TruncatedNormal(spec["mu"], spec["sig"], spec["low"], spec["up"])
    return pba.Distribution("uniform", tuple(spec["params"]))


def trace_loglik(particle_num, x):
    """module-level (picklable) log-likelihood for the end-to-end runs"""
    x = np.atleast_1d(np.asarray(x, float))
    return float(-0.5 * np.sum(((x - 0.8) / 0.2) ** 2))


class SerialPool:
    """stands in for multiprocessing.Pool so that the workflow runs in the harness process (where MCMC_MH is wrapped)"""
    def __init__(self, *a, **k):
        pass

    def starmap(self, f, it):
        return [f(*args) for args in it]

    def close(self):
        pass


def workflows(chk, T, rng):
    """(D) both public workflows, run serially: every Metropolis-Hastings kernel must be started from a state whose stored
    log-likelihood and tempered log-posterior are those of that state at the exponent it is given"""
    import multiprocessing
    real_pool, real_mh = multiprocessing.Pool, T.MCMC_MH
    for wf in ("run_tmcmc_updated", "run_tmcmc"):
        for it in range(1 if chk.tier == "quick" else 4):
            specs = [{"family": "Uniform", "lower": -1.0, "upper": 3.0}, {"family": "Normal", "mu": 0.5, "sig": 1.0}][: 1 + (it % 2)] if it < 2 else [gen_prior(rng) for _ in range(rng.choice([1, 2]))]
            pars = [mk_prior(sp) for sp in specs]
            N = 60
            entries = []

            def mh(j, Em, Nm, cur, lik, post, beta, na, all_pars, ll):
                entries.append((np.array(cur, float).copy(), float(lik), float(post), float(beta)))
                return real_mh(j, Em, Nm, cur, lik, post, beta, na, all_pars, ll)
            site = f"workflow:{wf}"
            replay = {"kind": "oracle", "workflow": wf, "priors": specs, "N": N, "loglik": "-0.5 * sum(((x - 0.8) / 0.2) ** 2)", "pool": "serial stand-in for multiprocessing.Pool"}
            chk.count("workflow-" + wf, key=(wf, str(specs), it))
            np.random.seed(rng.randint(0, 2 ** 31 - 1))
            multiprocessing.Pool, T.MCMC_MH = SerialPool, mh
            try:
                with tempfile.TemporaryDirectory(prefix="c19_") as tmp:
                    trace = getattr(T, wf)(N, pars, trace_loglik, os.path.join(tmp, "status.txt"), 2, 2)
            except Exception as ex:
                chk.report(site, f"{wf} fails: {type(ex).__name__}: {str(ex)[:80]}", replay)
                continue
            finally:
                multiprocessing.Pool, T.MCMC_MH = real_pool, real_mh
            worst = None
            for cur, lik, post, beta in entries:
                L = trace_loglik(0, cur)
                pr_ = sum(own_log_prior(sp, float(x)) for sp, x in zip(specs, np.atleast_1d(cur)))
                want = pr_ + beta * L
                tol = 1e-8 * max(1.0, abs(want), abs(L))
                if abs(lik - L) > tol:
                    worst = worst or f"stored log-likelihood {lik!r} of the start state {cur.tolist()} is not its log-likelihood {L!r}"
                elif math.isfinite(want) and abs(post - want) > tol:
                    worst = worst or (f"the kernel for exponent {beta!r} is started from {cur.tolist()} with tempered log-posterior {post!r}, but log prior + exponent * log likelihood "
                                      f"of that state is {want!r} (difference {post - want:.6g})")
            chk.count("workflow-mh-entries", n=len(entries), nontrivial=False)
            if worst:
                chk.report(site + ":mh-entry", worst, replay)


def body(chk):
    from pyuncertainnumber.calibration import tmcmc as T
    pr = chk.do_proofs()
    rng = chk.rng
    proxy = NPProxy(np)
    T.np = proxy
    bitems, bflat, mitems, mflat = [], [], [], []

    # ---------------- A: compute_beta_update_evidence ----------------
    n_beta = 60 if chk.tier == "quick" else 600
    for it in range(n_beta):
        N = rng.choice([51, 60, 100, 200, 500])
        kind, ls = gen_loglik(rng, N)
        beta = rng.choice([0.0, 0.0, 0.1, 0.5, 0.9, 0.99, rng.random() * 0.999])
        prev = rng.choice([N, int(0.9 * N), min(N, 60), min(N, 52), 40])
        logev = rng.choice([0.0, -12.5, 3.0])
        rN = max(0.95 * prev, 50)
        site = f"beta:{kind}"
        n_finite = int(np.sum(np.isfinite(ls)))
        if n_finite <= rN and n_finite < N:
            site = "beta:likelihood-zero-particles"       # the ESS can never exceed the number of particles with non-zero likelihood
        frac_inf = float(np.mean(np.isinf(ls)))
        replay = {"kind": "oracle", "loglik_kind": kind, "N": N, "beta": beta, "prev_ESS": prev, "log_evidence": logev, "neg_inf_fraction": frac_inf,
                  "loglik_head": [float(x) for x in ls[:8]], "rng_note": "log-likelihood vector regenerated from the check seed"}
        chk.count(f"beta-{kind}", key=(kind, N, beta, prev, float(ls[0]), float(ls[-1])))
        proxy.rec["exp"].clear()
        try:
            with np.errstate(all="ignore"):
                nb, le, W, ESS = T.compute_beta_update_evidence(beta, ls, logev, prev)
        except Exception as ex:
            if np.isinf(ls).all() or kind == "flat":
                pass
            chk.report(site, f"compute_beta_update_evidence fails: {type(ex).__name__}: {str(ex)[:80]}", replay)
            continue
        obs = [ess_of(w) if np.isfinite(w).all() and sum(w) > 0 else 0 for w in proxy.rec["exp"]]
        W = np.asarray(W, float)
        inc = nb - beta
        # every stage strictly increases the exponent, never beyond one
        if not (beta < nb <= 1.0):
            chk.report(site + ":progress", f"new exponent {nb!r} is not in ({beta!r}, 1]", replay)
        # weights: a probability vector proportional to likelihood ** increment
        if not (np.all(W >= 0) and abs(float(np.sum(W)) - 1.0) <= 1e-9):
            chk.report(site + ":weights", f"importance weights are not a probability vector (sum {float(np.sum(W))!r}, min {float(np.min(W))!r})", replay)
        else:
            fin = np.isfinite(ls)
            ref = np.zeros(N)
            with np.errstate(all="ignore"):
                ref[fin] = np.exp(inc * (ls[fin] - ls[fin].max()))
            ref = ref / ref.sum()
            if not np.allclose(W, ref, rtol=1e-9, atol=1e-300):
                chk.report(site + ":weights", "importance weights are not proportional to likelihood ** increment", replay)
        # evidence finite, and the increment of log-evidence is log mean(L ** inc)
        if not math.isfinite(float(le)):
            chk.report(site + ":evidence", f"log-evidence is {float(le)!r}", replay)
        # the increment is the largest keeping the ESS at its target, within the bisection tolerance
        if nb < 1.0:
            lo_b = nb - 2e-8
            if lo_b <= beta:
                chk.report(site + ":ess-target", f"no progress: the exponent moves from {beta!r} to {nb!r} (less than the bisection tolerance); the ESS target {rN} "
                           f"cannot be met because {int(np.sum(np.isinf(ls)))} of {N} particles have likelihood zero (ESS at the returned exponent: {ess_at(ls, inc)})", replay)
            else:
                e_lo, e_hi = ess_at(ls, lo_b - beta), ess_at(ls, nb + 2e-8 - beta)
                if not (e_lo >= rN - 1 and e_hi <= rN + 1):
                    chk.report(site + ":ess-target", f"the returned exponent {nb!r} is not the largest keeping the ESS at its target {rN}: ESS just below it {e_lo}, just above it {e_hi}", replay)
        else:
            if ess_at(ls, 1.0 - beta - 1e-7) < rN - 1 and ess_at(ls, (1.0 - beta) / 2) < rN - 1:
                chk.report(site + ":ess-target", f"exponent 1 returned although the ESS falls below its target {rN} well before 1", replay)
        bitems.append(f"({hexf(beta)}, {hexf(rN)}, {coq_list([f'({o})%Z' for o in obs])}, {hexf(nb)}, ({int(ESS)})%Z)")
        bflat.append((site, replay))

    # ---------------- B: MCMC_MH ----------------
    n_mh = 40 if chk.tier == "quick" else 400
    real_log_prior, real_propose = T.log_prior, T.propose
    for it in range(n_mh):
        d = rng.choice([1, 2, 3])
        specs = [gen_prior(rng) for _ in range(d)]
        pars = [mk_prior(s) for s in specs]
        beta = rng.choice([1e-3, 0.05, 0.3, 1.0])
        Nm = rng.choice([1, 3, 5, 12])
        sup = [support_of(s) for s in specs]
        target = [rng.choice([0.5, 1.5, 3.0, -1.0]) for _ in range(d)]
        sc = rng.choice([0.2, 1.0])
        cut = rng.choice([None, 0.0])
        prior_rec, lik_rec, delta_rec = [], [], []

        def loglik(pn, x):
            x = np.asarray(x, float)
            v = float(-0.5 * np.sum(((x - target) / sc) ** 2))
            if cut is not None and x[0] < cut:
                v = -math.inf
            lik_rec.append(([float(t) for t in x], v))
            return v

        def rec_prior(s, all_pars):
            v = real_log_prior(s, all_pars)
            prior_rec.append(([float(t) for t in np.asarray(s, float)], float(v)))
            return v

        def rec_propose(cur, cov, n):
            r = real_propose(cur, cov, n)
            delta_rec.extend([[float(t) for t in row] for row in np.atleast_2d(r)])
            return r
        T.log_prior, T.propose = rec_prior, rec_propose
        np.random.seed(rng.randint(0, 2 ** 31 - 1))
        cur = np.array([min(max(t, lo + 0.01 if math.isfinite(lo) else t), hi - 0.01 if math.isfinite(hi) else t) if True else t
                        for t, (lo, hi) in zip([rng.choice([0.2, 0.7, 1.2]) for _ in range(d)], sup)], float)
        cur = np.array([min(max(c, (lo + 0.01) if math.isfinite(lo) else c), (hi - 0.01) if math.isfinite(hi) else c) for c, (lo, hi) in zip(cur, sup)], float)
        lp0 = float(real_log_prior(cur, pars))
        l0 = float(-0.5 * np.sum(((cur - target) / sc) ** 2)) if not (cut is not None and cur[0] < cut) else -math.inf
        post0 = lp0 + l0 * beta
        Em = np.diag([rng.choice([0.05, 0.5, 4.0]) for _ in range(d)])
        site = f"mh:{'+'.join(s['family'] for s in specs)}"
        replay = {"kind": "oracle", "priors": specs, "beta": beta, "steps": Nm, "start": [float(c) for c in cur], "target": target, "scale": sc, "cut": cut,
                  "proposal_cov_diag": [float(x) for x in np.diag(Em)]}
        chk.count(f"mh-{d}d-{Nm}", key=(str(specs), beta, Nm, tuple(cur), tuple(target), sc, cut))
        proxy.rec["log"].clear()
        proxy.rec["uniform"].clear()
        try:
            with np.errstate(all="ignore"):
                out = T.MCMC_MH(0, Em, Nm, cur.copy(), l0, post0, beta, 0, pars, loglik)
        except Exception as ex:
            chk.report(site, f"MCMC_MH fails: {type(ex).__name__}: {str(ex)[:80]}", replay)
            T.log_prior, T.propose = real_log_prior, real_propose
            continue
        finally:
            T.log_prior, T.propose = real_log_prior, real_propose
        ncur, nl, npost, nacc = np.asarray(out[0], float), float(out[1]), float(out[2]), int(out[3])
        # never leaves the support of the prior
        for xi, (lo, hi), sp in zip(ncur, sup, specs):
            if not (lo <= xi <= hi):
                chk.report(site + ":support", f"the returned state {[float(t) for t in ncur]} lies outside the support [{lo}, {hi}] of its {sp['family']} prior", replay)
                break
        else:
            # stored log-likelihood and tempered log-posterior are those of the returned state
            own_lp = sum(own_log_prior(sp, float(xi)) for sp, xi in zip(specs, ncur))
            own_l = float(-0.5 * np.sum(((ncur - target) / sc) ** 2)) if not (cut is not None and ncur[0] < cut) else -math.inf
            if not (nl == own_l or abs(nl - own_l) <= 1e-9 * max(1.0, abs(own_l))):
                chk.report(site + ":stored", f"stored log-likelihood {nl!r} is not that of the returned state ({own_l!r})", replay)
            own_post = own_lp + own_l * beta
            if not (npost == own_post or abs(npost - own_post) <= 1e-9 * max(1.0, abs(own_post))):
                chk.report(site + ":stored", f"stored tempered log-posterior {npost!r} is not log prior + beta * log likelihood of the returned state ({own_post!r}; "
                           f"log prior by the family's own density {own_lp!r})", replay)
        # acceptance rule replayed from the recorded draws with independent densities
        logus = list(proxy.rec["log"])
        if len(delta_rec) == Nm:
            c, post_c, acc = cur.copy(), post0, 0
            k_u = 0
            for j in range(Nm):
                prop = c + np.array(delta_rec[j])
                lp = sum(own_log_prior(sp, float(xi)) for sp, xi in zip(specs, prop))
                if math.isfinite(lp):
                    l = float(-0.5 * np.sum(((prop - target) / sc) ** 2)) if not (cut is not None and prop[0] < cut) else -math.inf
                    post_p = lp + l * beta
                else:
                    post_p = -math.inf
                la = post_p - post_c
                if math.isfinite(la):
                    if k_u >= len(logus):
                        break
                    if logus[k_u] < la:
                        c, post_c, acc = prop, post_p, acc + 1
                    k_u += 1
            else:
                if acc != nacc or not np.allclose(c, ncur, rtol=0, atol=1e-12):
                    chk.report(site + ":acceptance", f"replaying the recorded proposals and uniform draws with acceptance iff log u < difference of tempered log-posteriors "
                               f"gives {acc} accepted moves ending at {[float(t) for t in c]}, the implementation {nacc} ending at {[float(t) for t in ncur]}", replay)
        # correspondence
        steps = []
        k_u = 0
        # the implementation draws a uniform only when the log acceptance ratio is finite: align the recorded logs with the steps
        pr_tab = {tuple(p): v for p, v in prior_rec}
        lk_tab = {tuple(p): v for p, v in lik_rec}
        c, post_c = cur.copy(), post0
        ok_align = len(delta_rec) == Nm
        if ok_align:
            for j in range(Nm):
                prop = c + np.array(delta_rec[j])
                key = tuple(float(t) for t in prop)
                lp = pr_tab.get(key)
                if lp is None:
                    ok_align = False
                    break
                if math.isfinite(lp):
                    l = lk_tab.get(key)
                    if l is None:
                        ok_align = False
                        break
                    post_p = lp + l * beta
                else:
                    post_p = -math.inf
                la = post_p - post_c
                if math.isfinite(la):
                    if k_u >= len(logus):
                        ok_align = False
                        break
                    lu = logus[k_u]
                    k_u += 1
                    if lu < la:
                        c, post_c = prop, post_p
                else:
                    lu = 0.0
                steps.append((delta_rec[j], lu))
        if ok_align:
            tabp = coq_list([f"({flist(p)}, {hexf(v)})" for p, v in prior_rec])
            tabl = coq_list([f"({flist(p)}, {hexf(v)})" for p, v in lik_rec])
            st = coq_list([f"({flist(dl)}, {hexf(lu)})" for dl, lu in steps])
            mitems.append(f"(mkMH {tabp} {tabl} ({hexf(beta)}) {flist(cur)} ({hexf(l0)}) ({hexf(post0)}) 0%nat {st} {flist(ncur)} ({hexf(nl)}) ({hexf(npost)}) {nacc}%nat)")
            mflat.append((site, replay))
    T.np = np

    # ---------------- C: end-to-end traces ----------------
    n_tr = 2 if chk.tier == "quick" else 8
    for it in range(n_tr):
        specs = [gen_prior(rng) for _ in range(rng.choice([1, 2]))]
        if it == 0:
            specs = [{"family": "TruncatedNormal", "mu": 1.0, "sig": 2.0, "low": 0.0, "up": 1.5}, {"family": "Uniform", "lower": 0.0, "upper": 2.0}]
        pars = [mk_prior(s) for s in specs]
        N = rng.choice([60, 100])
        site = f"trace:{'+'.join(s['family'] for s in specs)}"
        replay = {"kind": "oracle", "priors": specs, "N": N, "loglik": "-0.5 * sum(((x - 0.8) / 0.2) ** 2)"}
        chk.count("trace", key=(str(specs), N))
        np.random.seed(rng.randint(0, 2 ** 31 - 1))
        with tempfile.TemporaryDirectory(prefix="c19_") as tmp:
            try:
                trace = T.run_tmcmc_updated(N, pars, trace_loglik, os.path.join(tmp, "status.txt"), 3, 3)
            except Exception as ex:
                chk.report(site, f"run_tmcmc_updated fails: {type(ex).__name__}: {str(ex)[:80]}", replay)
                continue
        betas = [float(s.beta) for s in trace]
        if not all(b2 > b1 for b1, b2 in zip(betas[:-2], betas[1:-1])) or betas[-1] != 1.0 or (len(betas) > 1 and betas[-2] != 1.0):
            chk.report(site + ":betas", f"tempering exponents of the trace are not strictly increasing up to exactly 1: {betas}", replay)
        sup = [support_of(s) for s in specs]
        for si, stg in enumerate(trace):
            S = np.asarray(stg.Sm, float).reshape(len(stg.Sm), -1)
            if S.shape[0] != N:
                chk.report(site + ":particles", f"stage {si} records {S.shape[0]} particles instead of {N}", replay)
                break
            bad = [(float(x), j) for row in S for j, x in enumerate(row) if not (sup[j][0] <= x <= sup[j][1])]
            if bad:
                chk.report(site + ":support", f"stage {si} of the trace has {len(bad)} particle coordinates outside the prior support (e.g. {bad[0][0]} for the "
                           f"{specs[bad[0][1]]['family']} prior with support {list(sup[bad[0][1]])})", replay)
                break

    workflows(chk, T, rng)

    chunks = []
    for s in range(0, len(bitems), 30):
        chunks.append(("Definition cases : list bcase := " + coq_list(bitems[s:s + 30]) + ".\nDefinition verdicts := map bcheck cases.\n", len(bitems[s:s + 30])))
    nb_cases = len(bitems)
    for s in range(0, len(mitems), 10):
        chunks.append(("Definition cases : list mhcase := " + coq_list(mitems[s:s + 10]) + ".\nDefinition verdicts := map mhcheck cases.\n", len(mitems[s:s + 10])))
    allflat = bflat + mflat
    exact, rounded, bad, log = vlib.run_coq_cases("C19", chunks, "From PUN Require Import Model.TMCMC Corr.CorrC19.\n", jobs=16)
    chk.corr = {"bisection_cases": nb_cases, "mh_cases": len(mitems), "bit_exact": exact, "rounded": rounded, "disagree": len(bad)}
    if log:
        chk.corr["log"] = log[-600:]
    chk.sample({"site": bflat[0][0], "replay": bflat[0][1]})
    if mflat:
        chk.sample({"site": mflat[0][0], "replay": mflat[0][1]})
    seen = set()
    for i in bad:
        site, replay = allflat[i]
        if site in seen:
            continue
        seen.add(site)
        chk.report(site + ":model", "the implementation differs from the model run on the same recorded oracle values (ESS per evaluation / priors, likelihoods, increments, uniform draws)",
                   dict(replay, kind="correspondence"), found_input=True)
    if not pr["ok"]:
        if not chk.violations:
            chk.report("proof", "proof obligation no longer checks", chk.proof_broken_replay(), found_input=False)
        else:
            chk.violations[0][0]["proof_broken"] = chk.proof_broken_replay()


RULE = ("(A) compute_beta_update_evidence on log-likelihood vectors of 9 kinds (gaussian, wide, tiny spread, ties, single peak, few / many -inf entries, flat, huge offset), N in "
        "{51..500}, current exponents 0..0.999, previous ESS values: progress, weights, evidence, ESS target within the bisection tolerance, and the Coq bisection run on the recorded "
        "ESS of every evaluation; (B) MCMC_MH with 1-3 parameters, priors Uniform / Normal / HalfNormal / TruncatedNormal (sig != 1) / pba.Distribution, exponents, step counts, "
        "proposal covariances, likelihoods with a -inf region: support, stored values recomputed with independent densities, acceptance rule replayed from recorded draws, and the Coq "
        "MH run on the recorded oracle values; (C) end-to-end traces (multiprocessing as shipped): exponents, particle counts, support. "
        "distinct key = (all generator choices)")
TB = ["numpy / scipy (exp, sum, random draws, scipy.stats densities) and the user's log-likelihood are oracles: recorded in the harness process through a proxy of the numpy "
      "namespace of tmcmc.py and wrappers of log_prior / propose; no change to the repository",
      "hand model Model/TMCMC.v validated by the differential run; theorems over reals extended by -inf, +inf, nan",
      "resampling, covariance adaptation and the multiprocessing pool of the stage loop are observed end to end only (C)",
      "probability statements are the deterministic equivalences (accept iff u < ratio); no measure theory"]

if __name__ == "__main__":
    chk = vlib.main_wrapper("C19", body)
    sys.exit(chk.finish(rule=RULE, trusted_base=TB))
