#!/venv/bin/python
"""setup_cmd: regenerate Gen/*.v from /repo's working tree and build the whole Coq development (full .vo)."""
import os, sys
sys.path.insert(0, os.path.dirname(os.path.abspath(__file__)))
import vlib
errs = vlib.run_translators()
for n, e in errs:
    print("translator aborted:", n, e)
rc, out, t = vlib.sh("coq_makefile -f _CoqProject -o Makefile && timeout 3400 make -j16", timeout=3500, cwd=vlib.COQ)
print(out[-3000:])
print(f"setup: rc={rc} in {t:.0f}s")
sys.exit(0 if rc == 0 and not errs else 1)
