#!/bin/sh
# usage: tools/try_seed.sh <property id> <dir with patch.diff demo.py meta.json> [name]
# confirms the demo, applies the patch to /repo, runs the check, undoes the patch, stores under seeded/
id=$1; d=$2; name=${3:-$id}
[ -z "$(git -C /repo status --porcelain)" ] || { echo "/repo not clean"; exit 2; }
echo "== demo on unchanged tree"; (cd /tmp && PYTHONPATH=/repo/src MPLBACKEND=Agg timeout 900 /venv/bin/python $d/demo.py >/tmp/demo0.out 2>&1; echo "exit=$?" ; tail -3 /tmp/demo0.out)
git -C /repo apply $d/patch.diff || { echo "patch does not apply"; exit 2; }
echo "== demo on changed tree"; (cd /tmp && PYTHONPATH=/repo/src MPLBACKEND=Agg timeout 900 /venv/bin/python $d/demo.py >/tmp/demo1.out 2>&1; echo "exit=$?"; tail -5 /tmp/demo1.out)
echo "== check on changed tree"; ./check $id quick > /tmp/check_seed.out 2>&1; echo "check exit=$?"; grep -c VIOLATION /tmp/check_seed.out; tail -2 /tmp/check_seed.out
git -C /repo checkout -- . ; git -C /repo status --porcelain
mkdir -p seeded/$name; cp $d/patch.diff $d/demo.py $d/meta.json seeded/$name/ 2>/dev/null
