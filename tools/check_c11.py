#!/venv/bin/python
"""C11 - envelope and imposition are the lattice join and meet of uncertain numbers."""
import itertools
import os
import sys

sys.path.insert(0, os.path.dirname(os.path.abspath(__file__)))
import vlib
import pbx
from pbx import np, coq_pb, coq_pout
from vlib import coq_list

KINDS = ["pbox", "pbox", "interval", "real", "dist", "dss"]


def gen_operand(rng, center, spread):
    k = rng.choice(KINDS)
    if k == "pbox":
        kind = rng.choice(["pos", "straddle", "steps", "precise", "interval"])
        L, R = pbx.gen_bounds(rng, 200, kind, scale=spread, dy=rng.random() < 0.5)
        sh = center - (L[0] + R[-1]) / 2
        return {"kind": "pbox", "L": [v + sh for v in L], "R": [v + sh for v in R]}
    if k == "interval":
        a = center + pbx.dyadic(rng, -spread, spread)
        return {"kind": "interval", "lo": a, "hi": a + pbx.dyadic(rng, 0, spread)}
    if k == "real":
        return {"kind": "real", "c": center + pbx.dyadic(rng, -spread / 2, spread / 2), "num": rng.choice(["int", "float", "npfloat"])}
    if k == "dist":
        fam = rng.choice(["gaussian", "uniform"])
        if fam == "gaussian":
            return {"kind": "dist", "family": fam, "params": [center + pbx.dyadic(rng, -1, 1), pbx.dyadic(rng, 0.125, spread / 2 + 0.25)]}
        a = center + pbx.dyadic(rng, -spread, 0)
        return {"kind": "dist", "family": fam, "params": [a, a + pbx.dyadic(rng, 0.25, spread + 0.25)]}
    n = rng.randint(2, 5)
    ivs = []
    for _ in range(n):
        a = center + pbx.dyadic(rng, -spread, spread)
        ivs.append([a, a + pbx.dyadic(rng, 0, spread)])
    m = [rng.randint(1, 8) for _ in range(n)]
    return {"kind": "dss", "intervals": ivs, "masses": [x / sum(m) for x in m]}


def build(o):
    from pyuncertainnumber.pba.pbox_abc import Staircase
    from pyuncertainnumber.pba.intervals.number import Interval as I
    from pyuncertainnumber.pba.distributions import Distribution as D
    from pyuncertainnumber import pba
    k = o["kind"]
    if k == "pbox":
        return Staircase(np.array(o["L"]), np.array(o["R"]))
    if k == "interval":
        return I(o["lo"], o["hi"])
    if k == "real":
        c = o["c"]
        if o["num"] == "int":
            return int(round(c))
        return float(c) if o["num"] == "float" else np.float64(c)
    if k == "dist":
        return D(o["family"], tuple(o["params"]))
    return pba.DempsterShafer(intervals=o["intervals"], masses=o["masses"])


def gen_families(chk, tier):
    rng = chk.rng
    fams = []
    n = 36 if tier == "quick" else 400
    for i in range(n):
        size = rng.choice([1, 2, 2, 3, 3, 4, 5])
        spread = rng.choice([1.0, 2.0, 4.0])
        disjoint = rng.random() < 0.3
        ops = []
        for j in range(size):
            center = (j * 3 * spread if disjoint else rng.uniform(-1, 1))
            ops.append(gen_operand(rng, center, spread))
        if i % 9 == 0:   # all-interval family: envelope is the interval hull
            ops = [{"kind": "interval", "lo": (a := pbx.dyadic(rng, -4, 4)), "hi": a + pbx.dyadic(rng, 0, 3)} for _ in range(size)]
        if i % 9 == 4:   # two nearly equal p-boxes (a few parts per million apart, crossing each other): nothing may be treated as "equal"
            kind = rng.choice(["pos", "straddle", "steps"])
            L, R = pbx.gen_bounds(rng, 200, kind, scale=spread, dy=True)
            L2 = [v - (3e-6 * abs(v) + 3e-9) * (1 if k % 2 else -1) for k, v in enumerate(L)]
            R2 = [v + (3e-6 * abs(v) + 3e-9) * (1 if (k // 7) % 2 else -1) for k, v in enumerate(R)]
            L2, R2 = sorted(L2), sorted(R2)
            if all(a <= b for a, b in zip(L2, R2)):
                ops = [{"kind": "pbox", "L": L, "R": R}, {"kind": "pbox", "L": L2, "R": R2}] + ops[2:]
        fams.append(ops)
    return fams


def bounds_of(x):
    """the p-box form of an operand (through the library's own conversion)"""
    from pyuncertainnumber.pba.operation import convert
    p = convert(x)
    return [float(v) for v in p.left], [float(v) for v in p.right]


def run(fn, objs):
    try:
        r = fn(*objs)
        if type(r).__name__ == "Interval":
            return ("interval", float(r.lo), float(r.hi))
        return ("ok", [float(v) for v in r.left], [float(v) for v in r.right])
    except Exception as e:
        return ("exc", pbx.exc_code(e), type(e).__name__ + ": " + str(e)[:80])


def oracle_family(chk, fam, objs, conv, env_out, imp_out):
    import pyuncertainnumber as pun
    rng = chk.rng
    Ls = np.array([c[0] for c in conv])
    Rs = np.array([c[1] for c in conv])
    kinds = [o["kind"] for o in fam]
    site_e = "envelope:" + "+".join(sorted(set(kinds)))
    site_i = "imposition:" + "+".join(sorted(set(kinds)))
    rep = {"kind": "oracle", "family": fam}
    # ---- envelope
    if all(k == "interval" for k in kinds):
        lo, hi = min(o["lo"] for o in fam), max(o["hi"] for o in fam)
        if env_out[0] != "interval" or env_out[1] != lo or env_out[2] != hi:
            chk.report(site_e, f"envelope of intervals is {env_out[:3]}, hull is [{lo}, {hi}]", rep)
    else:
        eL, eR = Ls.min(axis=0), Rs.max(axis=0)
        if env_out[0] != "ok":
            chk.report(site_e, f"envelope raises {env_out[2]}", rep)
        elif not (np.array_equal(env_out[1], eL) and np.array_equal(env_out[2], eR)):
            k = int(np.argmax((np.array(env_out[1]) != eL) | (np.array(env_out[2]) != eR)))
            chk.report(site_e, f"envelope is not the pointwise min of left bounds / max of right bounds (step {k}: got [{env_out[1][k]}, {env_out[2][k]}], expected [{eL[k]}, {eR[k]}])", rep)
        else:
            from pyuncertainnumber.pba.pbox_abc import Staircase
            e = Staircase(np.array(env_out[1]), np.array(env_out[2]))
            for o, x in zip(fam, objs):
                try:
                    if not (x in e):
                        chk.report("contains", f"operand of kind {o['kind']} is not `in` the envelope", rep)
                except Exception as ex:
                    if o["kind"] not in ("dist", "dss"):   # `in` needs lo/hi attributes
                        chk.report("contains", f"`in` raises {type(ex).__name__} for kind {o['kind']}", rep)
    # ---- imposition
    iL, iR = Ls.max(axis=0), Rs.min(axis=0)
    # the left fold raises as soon as a partial meet is empty; any crossing of the total meet implies some partial crossing
    empty = bool((iL > iR).any())
    if empty:
        if imp_out[0] != "exc":
            chk.report(site_i, "operands have no common distribution but imposition returns a value", rep)
    else:
        if imp_out[0] != "ok":
            chk.report(site_i, f"imposition of compatible operands raises {imp_out[2]}", rep)
        elif not (np.array_equal(imp_out[1], iL) and np.array_equal(imp_out[2], iR)):
            k = int(np.argmax((np.array(imp_out[1]) != iL) | (np.array(imp_out[2]) != iR)))
            chk.report(site_i, f"imposition is not the pointwise max of left bounds / min of right bounds (step {k})", rep)
    # ---- order independence, idempotence
    if len(objs) > 1:
        perms = list(itertools.permutations(range(len(objs)))) if len(objs) <= 4 else [tuple(rng.sample(range(len(objs)), len(objs))) for _ in range(6)]
        for pi in perms[1:]:
            chk.count("permutation", nontrivial=False)
            o2 = run(pun.envelope, [objs[i] for i in pi])
            if o2[:1] != env_out[:1] or (o2[0] in ("ok", "interval") and o2[1:] != env_out[1:]):
                chk.report(site_e, f"envelope depends on the order of listing (permutation {pi})", rep)
                break
            i2 = run(pun.imposition, [objs[i] for i in pi])
            if i2[0] != imp_out[0] or (i2[0] == "ok" and i2[1:] != imp_out[1:]):
                chk.report(site_i, f"imposition depends on the order of listing (permutation {pi})", rep)
                break
    x = objs[0]
    for fn, name in ((pun.envelope, "envelope"), (pun.imposition, "imposition")):
        o1 = run(fn, [x, x])
        c = conv[0]
        if fam[0]["kind"] == "interval" and name == "envelope":
            ok = o1[0] == "interval" and o1[1] == fam[0]["lo"] and o1[2] == fam[0]["hi"]
        else:
            ok = o1[0] == "ok" and o1[1] == c[0] and o1[2] == c[1]
        if not ok:
            chk.report(name + ":idempotent", f"{name}(x, x) differs from x for kind {fam[0]['kind']}", rep)


def body(chk):
    import pyuncertainnumber as pun
    pbx.patch_fast_moments()
    pr = chk.do_proofs()
    fams = gen_families(chk, chk.tier)
    chunks, flat = [], []
    items = []
    for fam in fams:
        try:
            objs = [build(o) for o in fam]
            conv = [bounds_of(x) for x in objs]
        except Exception as e:
            chk.report("conversion", f"operand construction/conversion raises {type(e).__name__}: {e}", {"kind": "harness", "family": fam}, found_input=True)
            continue
        env_out = run(pun.envelope, objs)
        imp_out = run(pun.imposition, objs)
        chk.count("family-" + "+".join(sorted(set(o["kind"] for o in fam))), key=(tuple(o["kind"] for o in fam),
                  bool((np.array([c[0] for c in conv]).max(axis=0) > np.array([c[1] for c in conv]).min(axis=0)).any())))
        oracle_family(chk, fam, objs, conv, env_out, imp_out)
        pbs = coq_list([coq_pb(*c) for c in conv])
        if env_out[0] != "interval":
            items.append((f"(LEnv, {pbs}, {coq_pout(env_out)})", fam))
        items.append((f"(LImp, {pbs}, {coq_pout(imp_out)})", fam))
    CA = 3
    for s in range(0, len(items), CA):
        chunks.append(("Definition cases : list lcase := " + coq_list([t for t, _ in items[s:s + CA]]) +
                       ".\nDefinition verdicts := map lcheck cases.\n", len(items[s:s + CA])))
    exact, rounded, bad, log = vlib.run_coq_cases("C11", chunks, "From PUN Require Import Model.Interval Model.PboxArith Corr.CorrPbox Corr.CorrC11.\n", jobs=14)
    chk.corr = {"cases": len(items), "bit_exact": exact, "rounded": rounded, "disagree": len(bad)}
    if log:
        chk.corr["log"] = log[-600:]
    chk.sample({"family": fams[0]})
    chk.sample({"family_kinds": [o["kind"] for o in fams[1]]})
    for i in bad[:3]:
        chk.report("correspondence:" + items[i][0][1:5], "model and implementation disagree", {"kind": "correspondence", "family": items[i][1], "coq_log": log[-400:]}, found_input=False)
    if not pr["ok"]:
        if not chk.violations:
            chk.report("proof", "proof obligation no longer checks", chk.proof_broken_replay(), found_input=False)
        else:
            chk.violations[0][0]["proof_broken"] = chk.proof_broken_replay()


RULE = ("families of 1..5 operands of mixed kinds {p-box, interval, real, distribution, DS structure}, overlapping or disjoint; envelope(...) and "
        "imposition(...) compared with the Coq fold of env/imp over the converted operands (bit-exact) and with pointwise min/max, emptiness => raise, "
        "all orders of listing for <=4 operands, idempotence, interval hull, `in`. distinct key = (tuple of operand kinds, empty meet?); permutations are counted as trivial repeats")
TB = ["hand-written Model/Pbox.v env/imp + Staircase constructor tied by the in-Coq differential run",
      "conversion of distributions / DS structures / intervals to p-boxes is the library's own (checked under C07-C09)",
      "Staircase moments use the ECDF fallback in the harness process (LP disabled for speed)"]

if __name__ == "__main__":
    chk = vlib.main_wrapper("C11", body)
    sys.exit(chk.finish(rule=RULE, trusted_base=TB))
