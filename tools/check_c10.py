#!/venv/bin/python
"""C10 - distribution-free p-boxes enclose every distribution meeting the constraints."""
import math
import os
import sys
import warnings
from fractions import Fraction as F

sys.path.insert(0, os.path.dirname(os.path.abspath(__file__)))
import vlib
import pbx
from pbx import np
from vlib import coq_list, flist, hexf

warnings.filterwarnings("ignore")


# ---------------------------------------------------------------------------------------------------------------------
# finite distributions with exact rational atoms and weights
# ---------------------------------------------------------------------------------------------------------------------
class Dist:
    def __init__(self, atoms, weights, label):
        pairs = sorted(zip(atoms, weights))
        merged = []
        for x, w in pairs:
            if w == 0:
                continue
            if merged and merged[-1][0] == x:
                merged[-1][1] += w
            else:
                merged.append([x, w])
        self.x = [F(p[0]) for p in merged]
        self.w = [F(p[1]) for p in merged]
        assert sum(self.w) == 1
        self.label = label
        self.cum = []
        c = F(0)
        for w in self.w:
            c += w
            self.cum.append(c)

    @property
    def mean(self):
        return sum(x * w for x, w in zip(self.x, self.w))

    @property
    def var(self):
        m = self.mean
        return sum(w * (x - m) ** 2 for x, w in zip(self.x, self.w))

    def median(self):
        """the unique median, or None when the median is not unique"""
        for x, c, w in zip(self.x, self.cum, self.w):
            if c - w < F(1, 2) < c:
                return x
        return None

    def values_inside(self, lo, hi):
        """quantile values taken at levels strictly inside (lo, hi)"""
        out = []
        prev = F(0)
        for x, c in zip(self.x, self.cum):
            if prev < hi and c > lo:
                out.append(x)
            prev = c
        return out

    def desc(self):
        return {"label": self.label, "atoms": [float(x) for x in self.x], "weights": [float(w) for w in self.w]}


def random_dist(rng, lo=-4, hi=8, kmax=6):
    k = rng.randint(2, kmax)
    atoms = sorted({F(rng.randint(lo * 8, hi * 8), 8) for _ in range(k)})
    ws = [rng.randint(1, 12) for _ in atoms]
    if rng.random() < 0.4:       # masses that fall strictly inside probability steps
        ws = [w * 7 + rng.randint(0, 6) for w in ws]
    s = sum(ws)
    return Dist(atoms, [F(w, s) for w in ws], "random")


def cantelli_two_point(mu, sd, t):
    """low atom mu - sd t with mass 1/(1+t^2), high atom mu + sd / t"""
    return Dist([mu - sd * t, mu + sd / t], [1 / (1 + t * t), t * t / (1 + t * t)], f"cantelli two-point t={float(t):.4g}")


def markov_two_point(mn, mu, t):
    """mn with mass 1-t, mn + (mu - mn)/t with mass t"""
    return Dist([mn, mn + (mu - mn) / t], [1 - t, t], f"markov two-point t={float(t):.4g}")


def chebyshev_three_point(mu, sd, k):
    return Dist([mu - k * sd, mu, mu + k * sd], [1 / (2 * k * k), 1 - 1 / (k * k), 1 / (2 * k * k)], f"chebyshev three-point k={float(k):.3g}")


# ---------------------------------------------------------------------------------------------------------------------
def enclosure(chk, site, what, L, R, d, n, exempt_left=(), exempt_right=(), replay=None, rel=1e-9):
    """every quantile value of d at levels strictly inside step k lies in [L_k, R_k]"""
    scale = max(1.0, max(abs(float(x)) for x in d.x))
    tol = rel * scale
    for k in range(n):
        vals = d.values_inside(F(k, n), F(k + 1, n))
        for v in vals:
            v = float(v)
            if k not in exempt_left and v < L[k] - tol:
                chk.report(site + ":left", f"{what}: a distribution meeting the constraints ({d.label}) has quantile {v!r} at levels inside step {k} "
                           f"({k}/{n}, {k + 1}/{n}) below the left bound {L[k]!r}", dict(replay or {}, distribution=d.desc(), step=k))
                return False
            if k not in exempt_right and v > R[k] + tol:
                chk.report(site + ":right", f"{what}: a distribution meeting the constraints ({d.label}) has quantile {v!r} at levels inside step {k} "
                           f"({k}/{n}, {k + 1}/{n}) above the right bound {R[k]!r}", dict(replay or {}, distribution=d.desc(), step=k))
                return False
    return True


_NUM = [0]


def num(x):
    """the argument as a caller would write it: a whole number goes in as a Python int, a numpy integer or a float in turn (the constructors
    take numbers; which Python type carries the value must not matter), anything else as a float"""
    v = float(x)
    if v == int(v) and abs(v) < 2 ** 53:
        _NUM[0] += 1
        return (int(v), np.int64(int(v)), v)[_NUM[0] % 3]
    return v



def body(chk):
    from pyuncertainnumber import pba
    from pyuncertainnumber.pba.params import Params
    from pyuncertainnumber.pba import pbox_free
    pbx.patch_fast_moments()
    pr = chk.do_proofs()
    rng = chk.rng
    n = Params.steps
    items, flat = [], []

    def build(site, what, f, replay):
        try:
            p = f()
            if type(p).__name__ == "UncertainNumber":
                p = p.construct
            return [float(x) for x in p.left], [float(x) for x in p.right]
        except Exception as e:
            chk.report(site, f"{what} fails: {type(e).__name__}: {str(e)[:80]}", replay)
            return None

    def coq_case(ctor, args, LR, site, replay):
        items.append(f"({ctor}, {flist(args)}, POk {flist(LR[0])} {flist(LR[1])})")
        flat.append((site, replay))

    n_rand = 12 if chk.tier == "quick" else 120
    ts = [F(1, 3), F(1, 2), F(2, 3), F(1), F(3, 2), F(2), F(3), F(5), F(7, 2), F(13, 3)]
    # ---- mean and standard deviation / variance (Cantelli) ----
    for it in range(n_rand):
        mu = F(rng.choice([0, 1, -3, 10, 5]))
        sd = F(rng.choice([1, 2, 1, 3]), rng.choice([1, 2, 4]))
        for via in ("mean_std", "mean_var", "known_properties"):
            if via == "mean_std":
                f = lambda: pba.mean_std(num(mu), num(sd))
            elif via == "mean_var":
                f = lambda: pba.mean_var(num(mu), num(sd * sd))
            else:
                f = lambda: pba.known_properties(mean=num(mu), std=num(sd))
            site = f"free:{via}"
            what = f"{via}(mean={float(mu)}, std={float(sd)})"
            replay = {"kind": "oracle", "constructor": via, "mean": float(mu), "std": float(sd)}
            LR = build(site, what, f, replay)
            if LR is None:
                continue
            L, R = LR
            chk.count(f"{via}", key=(via, mu, sd))
            if via == "mean_std":
                coq_case("FMeanStd", [float(mu), float(sd)], LR, site, replay)
            dists = [cantelli_two_point(mu, sd, t) for t in rng.sample(ts, 4)]
            dists += [cantelli_two_point(mu, sd, F(rng.randint(3, 40), rng.randint(3, 17))) for _ in range(3)]
            dists += [Dist([2 * mu - x for x in d.x], d.w, d.label + " mirrored") for d in dists[:4]]
            dists += [chebyshev_three_point(mu, sd, F(rng.choice([2, 3, 5]), rng.choice([1, 2])) + 1)]
            for d in dists:
                chk.count(f"dist-{d.label.split(' t=')[0].split(' k=')[0]}", key=(via, mu, sd, d.label), nontrivial=True)
                assert d.mean == mu and d.var == sd * sd
                ok = enclosure(chk, site, what, L, R, d, n, exempt_left=(0,), exempt_right=(n - 1,), replay=replay)
                # not vacuous: one step further in, the bound has passed the extremal atom
                if ok and d.label.startswith("cantelli two-point") and "mirrored" not in d.label:
                    w = d.w[0]
                    k = int(math.ceil(w * n)) - 1          # step containing the low atom's mass w: k/n < w <= (k+1)/n
                    if 1 <= k and k + 2 < n - 1 and not (L[k + 2] >= float(d.x[0]) - 1e-9 * max(1, abs(float(d.x[0])))):
                        chk.report(site + ":vacuous", f"{what}: the left bound {L[k + 2]!r} two steps above the level {float(w):.4f} is still below the extremal "
                                   f"two-point atom {float(d.x[0])!r}: the bound is looser than Cantelli's by more than one step", dict(replay, distribution=d.desc()))
                    wh = d.w[0]                               # high atom occupies levels above w
                    k = int(math.floor(wh * n))               # step containing the level w
                    if 2 <= k < n - 1 and not (R[k - 2] <= float(d.x[1]) + 1e-9 * max(1, abs(float(d.x[1])))):
                        chk.report(site + ":vacuous", f"{what}: the right bound {R[k - 2]!r} two steps below the level {float(wh):.4f} is still above the extremal "
                                   f"two-point atom {float(d.x[1])!r}", dict(replay, distribution=d.desc()))

    # ---- constraints read off random finite distributions ----
    extreme = []
    for eps in (F(1, 1000), F(1, 400), F(3, 1000), F(1, 150)):
        lo_, hi_ = F(rng.choice([0, -2, 5])), None
        hi_ = lo_ + rng.choice([1, 4])
        extreme.append(Dist([lo_, hi_], [1 - eps, eps], f"two-point, mass {float(eps)} at the top"))
        extreme.append(Dist([lo_, hi_], [eps, 1 - eps], f"two-point, mass {float(eps)} at the bottom"))
        extreme.append(Dist([lo_, (lo_ + hi_) / 2, hi_], [1 - 2 * eps, eps, eps], f"three-point, mass {float(eps)} in the upper tail"))
        # the median carries just enough mass: the quantile function jumps to the maximum (leaves the minimum) within one grid step of level 1/2
        extreme.append(Dist([lo_, (lo_ + hi_) / 2, hi_], [F(1, 4), F(1, 4) + eps, F(1, 2) - eps], f"three-point, cdf at the median = 1/2 + {float(eps)}"))
        extreme.append(Dist([lo_, (lo_ + hi_) / 2, hi_], [F(1, 2) - eps, F(1, 4) + eps, F(1, 4)], f"three-point, cdf below the median = 1/2 - {float(eps)}"))
        extreme.append(Dist([lo_, hi_], [F(1, 2) + eps, F(1, 2) - eps], f"two-point, cdf at the lower atom = 1/2 + {float(eps)}"))
    for it in range(n_rand * 2 + len(extreme)):
        d = extreme[it - n_rand * 2] if it >= n_rand * 2 else random_dist(rng)
        if len(d.x) < 2:
            continue                     # min < max is part of the admissible constraints
        mn, mx, mu, var = d.x[0], d.x[-1], d.mean, d.var
        sd = math.sqrt(float(var))
        slack = F(rng.choice([0, 0, 1, 4]), 4)           # the stated range may be wider than the support
        a, b = mn - slack, mx + slack
        specs = [
            ("min_max", lambda: pba.min_max(num(a), num(b)), (), (), None),
            ("min_mean", lambda: pba.min_mean(num(a), num(mu)), (), (n - 1,), ("FMinMean", [float(a), float(mu)])),
            ("max_mean", lambda: pbox_free.max_mean(num(b), num(mu)), (0,), (), None),
            ("min_max_mean", lambda: pba.min_max_mean(num(a), num(b), num(mu)), (), (), ("FMinMaxMean", [float(a), float(b), float(mu)])),
            ("mean_std", lambda: pba.mean_std(num(mu), sd), (0,), (n - 1,), None),
            ("min_max_mean_std", lambda: pba.min_max_mean_std(num(a), num(b), num(mu), sd), (), (), None),
            ("min_max_mean_var", lambda: pba.min_max_mean_var(num(a), num(b), num(mu), num(var)), (), (), None),
            ("known:min,max,mean", lambda: pba.known_properties(minimum=num(a), maximum=num(b), mean=num(mu)), (), (), None),
            ("known:min,max", lambda: pba.known_properties(minimum=num(a), maximum=num(b)), (), (), None),
            ("known:min,mean", lambda: pba.known_properties(minimum=num(a), mean=num(mu)), (), (n - 1,), None),
            ("known:max,mean", lambda: pba.known_properties(maximum=num(b), mean=num(mu)), (0,), (), None),
            ("known:mean,var", lambda: pba.known_properties(mean=num(mu), var=num(var)), (0,), (n - 1,), None),
            ("known:min,max,mean,std", lambda: pba.known_properties(minimum=num(a), maximum=num(b), mean=num(mu), std=sd), (), (), None),
            ("known:min,max,mean,var", lambda: pba.known_properties(minimum=num(a), maximum=num(b), mean=num(mu), var=num(var)), (), (), None),
        ]
        if a >= 0 and mu > 0:
            specs.append(("pos_mean_std", lambda: pba.pos_mean_std(num(mu), sd), (0,), (n - 1,), ("FPosMeanStd", [float(mu), sd])))
        med = d.median()
        if med is not None:
            specs.append(("min_max_median", lambda: pba.min_max_median(num(a), num(b), num(med)), (), (), ("FMinMaxMedian", [float(a), float(b), float(med)])))
            specs.append(("known:min,max,median", lambda: pba.known_properties(minimum=num(a), maximum=num(b), median=num(med)), (), (), None))
        boundary = (mu - a) * (b - mu) - var <= F(1, 10 ** 6) * max(var, F(1, 10 ** 6))    # the largest variance the range and mean allow
        for name, f, exl, exr, coq in specs:
            if boundary and name in ("min_max_mean_std", "min_max_mean_var", "known:min,max,mean,std", "known:min,max,mean,var"):
                continue                 # the rounded std may exceed the admissible maximum: raising is allowed there
            site = f"free:{name}"
            what = f"{name} with constraints read off the distribution (min {float(a)}, max {float(b)}, mean {float(mu):.6g}, std {sd:.6g})"
            replay = {"kind": "oracle", "constructor": name, "min": float(a), "max": float(b), "mean": float(mu), "std": sd, "var": float(var)}
            LR = build(site, what, f, replay)
            if LR is None:
                continue
            chk.count(name, key=(name, tuple(d.x), tuple(d.w), slack))
            if coq and (it % 3 == 0 or coq[0] == "FMinMaxMedian"):
                coq_case(coq[0], coq[1], LR, site, replay)
            # the float mean / std of the constraint differ from the exact ones by rounding: relative tolerance 1e-7
            enclosure(chk, site, what, LR[0], LR[1], d, n, exempt_left=exl, exempt_right=exr, replay=replay, rel=1e-7)

    # ---- Markov extremal distributions ----
    for it in range(n_rand):
        mn = F(rng.choice([0, 1, -2, 5]))
        mu = mn + F(rng.choice([1, 2, 5, 1]), rng.choice([1, 2, 4]))
        LR = build("free:min_mean", f"min_mean({float(mn)}, {float(mu)})", lambda: pba.min_mean(num(mn), num(mu)), {"kind": "oracle", "min": num(mn), "mean": num(mu)})
        if LR is None:
            continue
        for t in [F(rng.randint(1, 199) * 2 + 1, 400) for _ in range(4)] + [F(1, 2), F(1, 10)]:
            d = markov_two_point(mn, mu, t)
            chk.count("dist-markov two-point", key=(mn, mu, t))
            replay = {"kind": "oracle", "constructor": "min_mean", "min": float(mn), "mean": float(mu)}
            ok = enclosure(chk, "free:min_mean", f"min_mean({float(mn)}, {float(mu)})", LR[0], LR[1], d, n, exempt_right=(n - 1,), replay=replay)
            k = int(math.floor((1 - t) * n))
            if ok and 2 <= k < n - 1 and not (LR[1][k - 2] <= float(d.x[1]) + 1e-9 * max(1, abs(float(d.x[1])))):
                chk.report("free:min_mean:vacuous", f"min_mean({float(mn)}, {float(mu)}): the right bound two steps below the level {float(1 - t):.4f} is already above "
                           f"the extremal two-point atom {float(d.x[1])!r}", dict(replay, distribution=d.desc()))

    chunks = []
    CH = 12
    for s in range(0, len(items), CH):
        chunks.append(("Definition cases : list fcase := " + coq_list(items[s:s + CH]) + ".\nDefinition verdicts := map fcheck cases.\n", len(items[s:s + CH])))
    exact, rounded, bad, log = vlib.run_coq_cases("C10", chunks, "From PUN Require Import Corr.CorrPbox Corr.CorrC10.\n", jobs=16)
    chk.corr = {"cases": len(items), "bit_exact": exact, "rounded": rounded, "disagree": len(bad)}
    if log:
        chk.corr["log"] = log[-600:]
    chk.sample({"site": flat[0][0], "replay": flat[0][1]})
    chk.sample({"site": flat[len(flat) // 2][0], "replay": flat[len(flat) // 2][1]})
    seen = set()
    for i in bad:
        site, replay = flat[i]
        if site in seen:
            continue
        seen.add(site)
        chk.report(site, "the p-box differs from the model generated from the source (grids, formulas, Staircase construction)", dict(replay, kind="correspondence"), found_input=True)
    if not pr["ok"]:
        if not chk.violations:
            chk.report("proof", "proof obligation no longer checks", chk.proof_broken_replay(), found_input=False)
        else:
            chk.violations[0][0]["proof_broken"] = chk.proof_broken_replay()


RULE = ("finite distributions with exact rational atoms and weights: (a) for mean/std constraints the extremal Cantelli two-point laws (10 fixed and random t, both tails by "
        "mirroring) and the Chebyshev three-point law; (b) random distributions (2-6 atoms, masses on and strictly inside step boundaries) whose min / max / mean / std / var / "
        "median are handed to min_max, min_mean, max_mean, min_max_mean, mean_std, mean_var, pos_mean_std, min_max_mean_std, min_max_mean_var, min_max_median and known_properties, "
        "also with a stated range wider than the support; (c) Markov two-point laws with the atom mass strictly inside a step. Enclosure is tested with exact cumulative "
        "probabilities at all levels strictly inside each of the 200 steps (mathematically unbounded tails exempt on the outermost step); non-vacuity: the bounds pass the extremal "
        "atoms within two steps. min_mean, mean_std, pos_mean_std, min_max_mean are compared bit for bit with the model generated from pbox_free.py. "
        "distinct key = (constructor, constraint values, distribution)")
TB = ["translator tools/translate_free.py (comprehension-based constructors min_mean, mean_std, pos_mean_std, min_max_mean; mean_var and max_mean checked to be the thin wrappers)",
      "the 199 -> 200 'next' interpolation inside Staircase is part of the run model (Model/Pbox.v), not of the step-wise theorems: theorems speak about the lists handed to Staircase",
      "min_max_median is translated (np.where over the grid) and proved; min_max_mean_std / _var (recurrence), min_max_mode are not translated: oracle only (mode: not exercised, finite distributions have no density mode)",
      "constraints are passed as binary64 roundings of the exact rational moments: enclosure tolerance 1e-7 relative for (b), 1e-9 for (a), (c)"]

if __name__ == "__main__":
    chk = vlib.main_wrapper("C10", body)
    sys.exit(chk.finish(rule=RULE, trusted_base=TB))
