#!/venv/bin/python
"""C08 - Dempster-Shafer structures convert to their belief/plausibility p-box."""
import math
import os
import sys
from fractions import Fraction

sys.path.insert(0, os.path.dirname(os.path.abspath(__file__)))
import vlib
import pbx
from pbx import np, coq_pout, flist
from vlib import coq_list


def grid():
    from pyuncertainnumber.pba.params import Params
    return [float(v) for v in Params.p_values]


def gen_structure(rng, shape, tier):
    """focal intervals + masses. shape: overlapping | nested | disjoint | repeated"""
    n = rng.choice([2, 2, 3, 4, 5, 7, 10, 16, 17, 30, 50])
    ivs = []
    if shape == "nested":
        c = pbx.dyadic(rng, -4, 4)
        ws = sorted((pbx.dyadic(rng, 0, 8) for _ in range(n)), reverse=True)
        ivs = [[c - w / 2 - pbx.dyadic(rng, 0, 0.5), c + w / 2] for w in ws]
    elif shape == "disjoint":
        x = pbx.dyadic(rng, -8, 0)
        for _ in range(n):
            w = pbx.dyadic(rng, 0, 1)
            ivs.append([x, x + w])
            x += w + pbx.dyadic(rng, 0.125, 1)
        rng.shuffle(ivs)
    elif shape == "near":
        # distinct focal elements that lie very close together at a large (or tiny) magnitude: neighbours differ by 1e-7 .. 5e-6 of their size
        c = rng.choice([293.15, 1000.0, 101325.0, 2.5e6, 3e-9]) * (1 + pbx.dyadic(rng, 0, 1))
        w = c * rng.choice([1e-4, 1e-2, 0.3])
        ivs, a, b = [], c, c + w
        for _ in range(n):
            ivs.append([a, b])
            a += c * rng.choice([1e-7, 1e-6, 5e-6])
            b += c * rng.choice([1e-7, 1e-6, 5e-6])
        rng.shuffle(ivs)
    elif shape == "scaled":
        sc = 2.0 ** rng.choice([-30, -20, 17, 30])
        ivs = [[(a := sc * pbx.dyadic(rng, -4, 4, bits=4)), a + sc * pbx.dyadic(rng, 0, 3, bits=4)] for _ in range(n)]
    elif shape == "repeated":
        base = [[(a := pbx.dyadic(rng, -4, 4)), a + pbx.dyadic(rng, 0, 3)] for _ in range(max(1, n // 3))]
        ivs = [list(rng.choice(base)) for _ in range(n)]
    else:
        ivs = [[(a := pbx.dyadic(rng, -4, 4, bits=4)), a + pbx.dyadic(rng, 0, 3, bits=4)] for _ in range(n)]
    mode = rng.choice(["equal", "dyadic", "dyadic", "arbitrary", "grid"])
    ties = len(set(i[0] for i in ivs)) < len(ivs) or len(set(i[1] for i in ivs)) < len(ivs)
    if ties and mode in ("arbitrary", "grid"):
        # value ties + inexact sums: the order of summation inside a tie group is numpy's (its argsort is not stable), not modelled;
        # masses with exact float sums make the order irrelevant
        mode = "dyadic"
    if mode == "equal":
        masses = None
    elif mode == "dyadic":
        k = 1 << rng.choice([4, 6, 8])
        cuts = sorted(rng.sample(range(1, k), min(n - 1, k - 1)))
        parts = [b - a for a, b in zip([0] + cuts, cuts + [k])]
        while len(parts) < n:
            parts.append(0)
        rng.shuffle(parts)
        masses = [p / k for p in parts]
    elif mode == "grid":
        # masses chosen so that cumulated masses hit grid levels exactly (when summed in the listed order of values)
        g = grid()
        order = sorted(range(n), key=lambda i: ivs[i][0])
        levels = sorted(rng.sample(range(len(g) - 1), n - 1))
        cum = [g[l] for l in levels] + [1.0]
        ms = [cum[0]] + [cum[i] - cum[i - 1] for i in range(1, n)]
        masses = [0.0] * n
        for idx, m in zip(order, ms):
            masses[idx] = m
    else:
        raw = [rng.random() + 0.01 for _ in range(n)]
        s = sum(raw)
        masses = [r / s for r in raw]
    return ivs, masses, (shape, mode, n)


def run_stack(ivs, masses, route):
    from pyuncertainnumber import pba
    from pyuncertainnumber.pba.aggregation import stacking, stochastic_mixture
    try:
        if route == "stacking":
            r = stacking([list(i) for i in ivs], weights=masses)
        elif route == "dss":
            r = pba.DempsterShafer(intervals=[list(i) for i in ivs], masses=masses if masses is not None else [1 / len(ivs)] * len(ivs)).to_pbox()
        elif route == "stacking-dss":          # stacking asked for the DS structure, converted afterwards
            r = stacking([list(i) for i in ivs], weights=masses if masses is not None else [1 / len(ivs)] * len(ivs), return_type="dss").to_pbox()
        elif route == "interval-objects":      # Interval objects instead of lists
            from pyuncertainnumber.pba.intervals.number import Interval
            r = stochastic_mixture(*[Interval(float(i[0]), float(i[1])) for i in ivs], weights=masses)
        elif route == "vec-interval":          # one vectorised Interval
            from pyuncertainnumber.pba.intervals.number import Interval
            r = stacking(Interval([float(i[0]) for i in ivs], [float(i[1]) for i in ivs]), weights=masses)
        else:
            r = stochastic_mixture(*[list(i) for i in ivs], weights=masses)
        return ("ok", [float(v) for v in r.left], [float(v) for v in r.right])
    except Exception as e:
        return ("exc", pbx.exc_code(e), type(e).__name__ + ": " + str(e)[:80])


def ginv(values, masses, alpha, slack):
    """generalised inverse: smallest value whose cumulated mass reaches alpha (exact rationals).
    Returns the set of acceptable answers: more than one when the cumulated mass is within `slack` of alpha (float summation)."""
    pairs = sorted(zip(values, masses))
    acc = Fraction(0)
    cands = []
    vals = []
    for v, m in pairs:
        acc += m
        vals.append((v, acc))
    # collapse ties in value: the mass at the end of a tie group
    ans = None
    ok = set()
    for i, (v, c) in enumerate(vals):
        last_of_group = (i == len(vals) - 1) or vals[i + 1][0] != v
        if not last_of_group:
            continue
        if c >= alpha - slack:
            ok.add(v)
            if c >= alpha + slack:
                break
    if not ok:
        ok.add(vals[-1][0])
    return ok


def oracle(ivs, masses, out):
    if out[0] != "ok":
        return f"conversion raises {out[2]}"
    why = pbx.wf_problem(out[1], out[2], 200)
    if why and "left above right" not in why:
        # (a crossing can only come from a bound that is not the generalised inverse, which the level-by-level check below reports;
        #  at a level hit within rounding by a cumulated mass either neighbour is accepted for each bound separately)
        return "ill-formed result: " + why
    n = len(ivs)
    ms = [Fraction(1, n)] * n if masses is None else [Fraction(m) for m in masses]
    tot = sum(ms)
    los = [Fraction(i[0]) for i in ivs]
    his = [Fraction(i[1]) for i in ivs]
    slack = Fraction(1, 10**13)
    g = grid()
    for t, a in enumerate(g):
        al = Fraction(a)
        okl = ginv(los, ms, al, slack)
        okr = ginv(his, ms, al, slack)
        if Fraction(out[1][t]) not in okl:
            return f"left bound at level {a!r} (index {t}) is {out[1][t]!r}; generalised inverse of the plausibility function is {sorted(map(float, okl))}"
        if Fraction(out[2][t]) not in okr:
            return f"right bound at level {a!r} (index {t}) is {out[2][t]!r}; generalised inverse of the belief function is {sorted(map(float, okr))}"
    return None


def same_up_to_ties(a, b, ivs, masses):
    """two results equal, or differing only where a cumulated mass is within rounding of a grid level"""
    if a[0] != "ok" or b[0] != "ok":
        return a[0] == b[0]
    if a[1] == b[1] and a[2] == b[2]:
        return True
    return oracle(ivs, masses, a) is None and oracle(ivs, masses, b) is None


def tie_crossing(out, tag):
    """the conversion refuses because the two endpoint look-ups fell on different sides of a grid level hit within rounding (finding O26);
    only possible for masses built to hit grid levels"""
    return out[0] == "exc" and "exceeds the right bound" in out[2] and tag[1] == "grid"


def body(chk):
    from pyuncertainnumber.pba.pbox_abc import Staircase
    pbx.patch_fast_moments()
    pr = chk.do_proofs()
    rng = chk.rng
    n_cases = 60 if chk.tier == "quick" else 800
    shapes = ["overlapping", "nested", "disjoint", "repeated", "near", "scaled"]
    cases, outs = [], []
    for i in range(n_cases):
        ivs, masses, tag = gen_structure(rng, shapes[i % 6], chk.tier)
        route = ["stacking", "dss", "mixture"][(i // 6 + i) % 3]
        o = run_stack(ivs, masses, route)
        cases.append((ivs, masses, tag, route))
        outs.append(o)
        chk.count(f"{route}-{tag[0]}-{tag[1]}", key=(route, tag))
        site = f"{route}:{tag[0]}:{tag[1]}"
        why = oracle(ivs, masses, o)
        rep = {"kind": "oracle", "intervals": ivs, "masses": masses, "route": route}
        if tie_crossing(o, tag):
            chk.report("ds:float-tie-crossing", f"{route} raises: {o[2]}", rep)
            continue
        if why:
            chk.report(site, why, rep)
            continue
        # order of listing
        perm = list(range(len(ivs)))
        rng.shuffle(perm)
        o2 = run_stack([ivs[j] for j in perm], None if masses is None else [masses[j] for j in perm], route)
        chk.count("permuted", nontrivial=False)
        if tie_crossing(o2, tag):
            chk.report("ds:float-tie-crossing", f"{route} of the permuted structure raises: {o2[2]}", dict(rep, permutation=perm))
        elif not same_up_to_ties(o, o2, ivs, masses):
            chk.report(site + ":permutation", "result depends on the order in which focal elements are listed", dict(rep, permutation=perm))
        # splitting a focal element into copies sharing its mass
        j = rng.randrange(len(ivs))
        mm = [1 / len(ivs)] * len(ivs) if masses is None else list(masses)
        half = mm[j] / 2
        ivs3 = ivs + [list(ivs[j])]
        mm3 = mm[:j] + [half] + mm[j + 1:] + [mm[j] - half]
        o3 = run_stack(ivs3, mm3, route)
        chk.count("split", nontrivial=False)
        if tie_crossing(o3, tag):
            chk.report("ds:float-tie-crossing", f"{route} of the structure with a split focal element raises: {o3[2]}", dict(rep, split_index=j))
        elif not same_up_to_ties(o, o3, ivs, mm) or (o3[0] == "ok" and oracle(ivs, mm, o3) is not None):
            chk.report(site + ":split", "result changes when a focal element is split into two copies sharing its mass", dict(rep, split_index=j))
    # masses that hit a grid level exactly (no float addition involved: the first cumulated mass IS the grid value):
    # "the smallest endpoint whose cumulated mass REACHES that level" - at the level itself the first focal element still answers
    g = grid()
    for k in ([0, 49, 120, 190] if chk.tier == "quick" else list(range(0, 195, 9))):
        for route in ("stacking", "dss", "mixture"):
            ivs = [[1.0, 2.0], [3.0, 5.0], [6.0, 7.0]]
            rest = 1.0 - g[k]
            masses = [g[k], rest / 2, rest - rest / 2]
            o = run_stack(ivs, masses, route)
            chk.count(f"{route}-exact-grid-hit", key=(route, "hit", k))
            rep = {"kind": "oracle", "intervals": ivs, "masses": masses, "route": route, "grid_index": k}
            if o[0] != "ok":
                chk.report(f"{route}:exact-grid-hit", f"conversion raises {o[2]}", rep)
            elif not (o[1][k] == 1.0 and o[2][k] == 2.0 and (k + 1 >= len(g) or (o[1][k + 1] == 3.0 and o[2][k + 1] == 5.0))):
                chk.report(f"{route}:exact-grid-hit", f"focal element [1,2] has mass exactly the grid level {g[k]!r} (index {k}): the bounds at that level must be [1,2] "
                           f"(its cumulated mass reaches the level) and [3,5] at the next level; got [{o[1][k]},{o[2][k]}] and "
                           f"[{o[1][min(k + 1, len(g) - 1)]},{o[2][min(k + 1, len(g) - 1)]}]", rep)
    # witness of the open finding O26
    # the remaining public routes give the same p-box as stacking (bit for bit)
    for i in range(12 if chk.tier == "quick" else 120):
        ivs, masses, tag = gen_structure(rng, shapes[i % 4], chk.tier)
        base = run_stack(ivs, masses, "stacking")
        for route in ("stacking-dss", "interval-objects", "vec-interval"):
            o = run_stack(ivs, masses, route)
            chk.count(f"route-{route}", key=(route, tag, i))
            if o != base and not (o[0] == base[0] == "exc"):
                chk.report(f"{route}:route", f"{route} differs from stacking on the same focal elements and masses" + (f": {o[2]}" if o[0] == "exc" else ""),
                           {"kind": "route", "intervals": ivs, "masses": masses, "route": route})
    # one object holding the focal elements used for several conversions in a row (equal masses first, then unequal masses, then the DS
    # structure twice): every answer is decided against the focal elements as they were GIVEN
    from pyuncertainnumber import pba as _pba
    from pyuncertainnumber.pba.aggregation import stacking as _stacking
    from pyuncertainnumber.pba.intervals.number import Interval as _I

    def _out(f):
        try:
            r = f()
            return ("ok", [float(v) for v in r.left], [float(v) for v in r.right])
        except Exception as e:
            return ("exc", pbx.exc_code(e), type(e).__name__ + ": " + str(e)[:80])
    for i in range(8 if chk.tier == "quick" else 80):
        ivs, masses, tag = gen_structure(rng, ["nested", "overlapping"][i % 2], chk.tier)
        if masses is None:
            mm = [rng.randint(1, 8) for _ in ivs]
            masses = [x / sum(mm) for x in mm]
        holder = ["vec-interval", "ndarray", "dss"][i % 3]
        if holder == "vec-interval":
            obj = _I([float(a) for a, _ in ivs], [float(b) for _, b in ivs])
            seq = [("stacking(obj)", None, lambda: _stacking(obj)), ("stacking(obj, weights)", masses, lambda: _stacking(obj, weights=masses)),
                   ("DempsterShafer(obj, masses).to_pbox()", masses, lambda: _pba.DempsterShafer(obj, masses).to_pbox()),
                   ("stacking(obj) again", None, lambda: _stacking(obj))]
        elif holder == "ndarray":
            obj = np.array([[float(a), float(b)] for a, b in ivs])
            seq = [("stacking(arr)", None, lambda: _stacking(obj)), ("stacking(arr, weights)", masses, lambda: _stacking(obj, weights=masses)),
                   ("DempsterShafer(arr, masses).to_pbox()", masses, lambda: _pba.DempsterShafer(obj, masses).to_pbox())]
        else:
            obj = _pba.DempsterShafer(intervals=[list(v) for v in ivs], masses=masses)
            seq = [("ds.to_pbox()", masses, lambda: obj.to_pbox()), ("stacking(ds.focal_elements)", None, lambda: _stacking(obj.focal_elements)),
                   ("ds.to_pbox() again", masses, lambda: obj.to_pbox())]
        for step, (text, w, f) in enumerate(seq):
            o = _out(f)
            chk.count(f"reuse-{holder}", key=("reuse", holder, i, step))
            rep = {"kind": "oracle", "intervals": ivs, "masses": w, "holder": holder, "sequence": [t for t, _, _ in seq[:step + 1]]}
            if tie_crossing(o, tag):
                continue
            why = oracle(ivs, w, o)
            if why:
                chk.report(f"reuse:{holder}", f"step {step + 1} of a sequence of conversions of ONE object ({text}): {why}", rep)
                break
    from pyuncertainnumber.pba.aggregation import stochastic_mixture
    chk.count("witness-O26", key="O26")
    try:
        stochastic_mixture([-3.375, -1.6875], [-4.0, -2.6875], [2.1875, 3.5625], [-3.9375, -1.1875], [-3.9375, -1.1875],
                           weights=[0.060180904522613154, 0.24172361809045226, 0.4222663316582914, 0.13791457286432157, 0.13791457286432157])
    except ValueError as e:
        if "exceeds the right bound" in str(e):
            chk.report("ds:float-tie-crossing", f"mixture raises: ValueError: {str(e)[:80]}", {"kind": "witness"})
    # round trip p-box -> DS structure -> p-box
    for k in range(6 if chk.tier == "quick" else 60):
        kind = (pbx.KINDS + pbx.TOUCH)[k % (len(pbx.KINDS) + len(pbx.TOUCH))]
        X = pbx.gen_bounds(rng, 200, kind, dy=rng.random() < 0.5)
        chk.count("roundtrip", key=("roundtrip", kind, k))
        try:
            p = Staircase(np.array(X[0]), np.array(X[1]))
            q = p.to_dss().to_pbox()
            if not (np.array_equal(q.left, p.left) and np.array_equal(q.right, p.right)):
                t = int(np.argmax((q.left != p.left) | (q.right != p.right)))
                chk.report("roundtrip", f"p-box -> DS structure -> p-box differs at step {t}: [{q.left[t]!r},{q.right[t]!r}] vs [{p.left[t]!r},{p.right[t]!r}]", {"kind": "oracle", "X": X})
        except Exception as e:
            chk.report("roundtrip", f"round trip raises {type(e).__name__}: {e}", {"kind": "oracle", "X": X})
    # correspondence with the Coq model
    chunks = []
    CH = 10
    for s in range(0, len(cases), CH):
        items = []
        for (ivs, masses, tag, route), o in zip(cases[s:s + CH], outs[s:s + CH]):
            w = "None" if masses is None else f"(Some {flist(masses)})"
            items.append(f"({flist([i[0] for i in ivs])}, {flist([i[1] for i in ivs])}, {w}, {coq_pout(o)})")
        chunks.append(("Definition cases : list scase := " + coq_list(items) + ".\nDefinition verdicts := map scheck cases.\n", len(items)))
    exact, rounded, bad, log = vlib.run_coq_cases("C08", chunks, "From PUN Require Import Model.Interval Model.PboxArith Corr.CorrPbox Corr.CorrC08.\n", jobs=14)
    chk.corr = {"cases": len(cases), "bit_exact": exact, "rounded": rounded, "disagree": len(bad)}
    if log:
        chk.corr["log"] = log[-600:]
    chk.sample({"intervals": cases[0][0], "masses": cases[0][1], "route": cases[0][3], "impl_left_head": outs[0][1][:4] if outs[0][0] == "ok" else outs[0]})
    chk.sample({"shape": cases[1][2], "route": cases[1][3]})
    for i in bad[:3]:
        ivs, masses, tag, route = cases[i]
        why = oracle(ivs, masses, outs[i])
        chk.report(f"correspondence:{route}:{tag[0]}:{tag[1]}", why or "model and implementation disagree",
                   {"kind": "correspondence", "intervals": ivs, "masses": masses, "route": route, "coq_log": log[-300:]}, found_input=bool(why))
    if not pr["ok"]:
        if not chk.violations:
            chk.report("proof", "proof obligation no longer checks", chk.proof_broken_replay(), found_input=False)
        else:
            chk.violations[0][0]["proof_broken"] = chk.proof_broken_replay()


RULE = ("DS structures with 2..50 focal intervals (overlapping / nested / disjoint / repeated), masses equal (None), dyadic (exact sums), arbitrary, or built to hit "
        "grid levels exactly; routes stacking(), DempsterShafer.to_pbox(), stochastic_mixture(); compared bit-exactly with the Coq model and, in exact rationals, with "
        "the generalised inverse of Pl / Bel at all 200 grid levels (either neighbour accepted when a cumulated mass is within 1e-13 of a level); each structure is "
        "also permuted and has one focal element split; p-box -> DS -> p-box round trips. distinct key = (route, shape, mass mode, n); permuted/split re-runs are counted as trivial")
TB = ["hand-written Model/Pbox.v (get_ecdf, extend_ecdf, interpolate_p 'next', from_CDFbundle, stacking) tied by the in-Coq differential run",
      "scipy interp1d(kind='next') modelled as q[#{p_j < a}] clipped; np.cumsum as a left fold; np.argsort modelled as a stable sort (ties in value with inexact masses avoided)",
      "Staircase moments use the ECDF fallback in the harness process (LP disabled for speed)"]

if __name__ == "__main__":
    chk = vlib.main_wrapper("C08", body)
    sys.exit(chk.finish(rule=RULE, trusted_base=TB))
